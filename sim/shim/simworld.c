/*
 * simworld — libc interposition shim (seam S1 of DESIGN.md).
 *
 * A pure plan executor: it reads the plan named by SIMWORLD_PLAN once at
 * start-up, counts intercepted calls per rule and applies the rule whose
 * counter condition matches; without a matching rule it forwards to the real
 * function.  It never draws random numbers, never reads a clock, and logs with
 * the real write(2) on a private descriptor (SIMWORLD_LOG).
 *
 * Only "world" paths are simulated: relative paths (the driver runs every
 * command with the project directory as cwd and uses relative paths only).
 * Absolute paths (/proc, /lib, the hook's stats files, ...) pass through
 * untouched and unlogged.
 *
 * Plan file, one directive per line:
 *   seed <hex bytes>                        getrandom() returns these bytes (cycled)
 *   canary                                   self-test: log a line "canary" at start-up
 *   rule <id> <call> <pattern> <nth> <action>
 *       call    : open read write unlink readdir dlopen dlsym
 *       pattern : fnmatch pattern on the %-decoded relative path
 *                 (fd 1 = "<stdout>", fd 2 = "<stderr>", dlsym: symbol name)
 *       nth     : N (N-th matching call) | N+ (N-th and later) | * | %M:R (count%M==R)
 *       action  : short:a,b,c  transfer at most a (then b, c, a, ...) bytes
 *                 eintr        fail with EINTR, nothing done
 *                 errno:NAME   fail with that errno, nothing done
 *                 kill         _exit(137) before the call
 *                 killafter    perform the call, then _exit(137)
 *                 null         dlopen/dlsym return NULL
 *                 gone         unlink: really remove the entry, then report ENOENT
 *                 perm:i,j,k   readdir: order of the (name-sorted) entries
 *                 stall        open/read/write: before the call, create <plan>.reached and wait until
 *                              <plan>.release exists (the driver runs another process meanwhile)
 *                 size:N       stat: the call succeeds but reports N as the file size
 *                 rdonly       open: fails with EACCES when the file is opened for writing (a read-only artefact)
 *                 xdev         rename: fails with EXDEV when source and destination lie in different directories
 *                              (every directory its own file system)
 * rule ... seek <pattern> <nth> errno:ESPIPE : the file is not seekable (a pipe where a file is expected)
 * SIMWORLD_CLOCK=tick  : the simulated clock: the n-th clock_gettime() of a thread reports 1000000 s + n ms, whatever
 *                        the clock id (time belongs to the simulator; elapsed times that reach the output repeat exactly)
 * SIMWORLD_CLOCK=freeze: every clock_gettime() reports the same instant (a clock too coarse to tell two moments apart)
 * SIMWORLD_ABS=<dir>: absolute paths below <dir> belong to the world as well (logged and matched as spelled).
 * Default readdir order (no rule): sorted by name.
 *
 * Log line:  <seq> <call> <path%enc> <requested> <result> <errno> <rule|->
 */
#define _GNU_SOURCE
#include <dirent.h>
#include <dlfcn.h>
#include <errno.h>
#include <fcntl.h>
#include <fnmatch.h>
#include <pthread.h>
#include <stdarg.h>
#include <stdio.h>
#include <stdlib.h>
#include <string.h>
#include <sys/stat.h>
#include <sys/types.h>
#include <sys/uio.h>
#include <time.h>
#include <unistd.h>

#define MAX_RULES 64
#define MAX_FDS 4096
#define MAX_DIRS 32
#define MAX_SHORTS 32

enum call_kind { C_OPEN, C_READ, C_WRITE, C_UNLINK, C_READDIR, C_DLOPEN, C_DLSYM, C_STAT, C_RENAME, C_SEEK, C_NKINDS };
static const char *call_names[] = {"open", "read", "write", "unlink", "readdir", "dlopen", "dlsym", "stat", "rename", "seek"};

enum action_kind { A_SHORT, A_EINTR, A_ERRNO, A_KILL, A_KILLAFTER, A_NULL, A_GONE, A_PERM, A_STALL, A_SIZE, A_XDEV, A_RDONLY };

struct rule {
    char id[32];
    int call;
    char pattern[256];
    int nth_mode; /* 0: exact N, 1: N+, 2: *, 3: %M:R */
    long nth_a, nth_b;
    int action;
    int err;
    long list[MAX_SHORTS];
    int nlist;
    long count;  /* matching calls seen */
    long fired;  /* times applied */
};

static struct rule rules[MAX_RULES];
static int nrules;
static unsigned char seed_bytes[64];
static int nseed;
static int log_fd = -1;
static long seq;
static char *fd_path[MAX_FDS];
static pthread_mutex_t lock = PTHREAD_MUTEX_INITIALIZER;
static int initialised;
static const char *abs_prefix;
static size_t abs_prefix_len;
static const char *plan_file;

struct dirstate {
    DIR *dir;
    char path[512];
    struct dirent64 *entries;
    int n, pos, loaded;
    long calls;
};
static struct dirstate dirs[MAX_DIRS];

/* real functions */
static int (*real_open)(const char *, int, ...);
static int (*real_open64)(const char *, int, ...);
static int (*real_openat)(int, const char *, int, ...);
static int (*real_openat64)(int, const char *, int, ...);
static ssize_t (*real_read)(int, void *, size_t);
static ssize_t (*real_write)(int, const void *, size_t);
static ssize_t (*real_writev)(int, const struct iovec *, int);
static int (*real_close)(int);
static int (*real_unlink)(const char *);
static int (*real_unlinkat)(int, const char *, int);
static DIR *(*real_opendir)(const char *);
static struct dirent64 *(*real_readdir64)(DIR *);
static int (*real_closedir)(DIR *);
static void *(*real_dlopen)(const char *, int);
static void *(*real_dlsym)(void *, const char *);
static ssize_t (*real_getrandom)(void *, size_t, unsigned int);
static int (*real_statx)(int, const char *, int, unsigned int, struct statx *);
static int (*real_rename)(const char *, const char *);
static off_t (*real_lseek)(int, off_t, int);
static off64_t (*real_lseek64)(int, off64_t, int);
static int (*real_clock_gettime)(clockid_t, struct timespec *);
static int clock_frozen, clock_ticking;
static __thread long clock_calls; /* per thread: a helper thread that polls the clock must not advance the others' time */

static const struct { const char *name; int value; } errnos[] = {
    {"EIO", EIO}, {"ENOSPC", ENOSPC}, {"EACCES", EACCES}, {"EMFILE", EMFILE},
    {"ENOENT", ENOENT}, {"EBUSY", EBUSY}, {"EPERM", EPERM}, {"EISDIR", EISDIR},
    {"EINTR", EINTR}, {"EAGAIN", EAGAIN}, {"EROFS", EROFS}, {"ENOMEM", ENOMEM},
    {"EPIPE", EPIPE}, {"EBADF", EBADF}, {"EXDEV", EXDEV}, {"ESPIPE", ESPIPE}, {NULL, 0}};

static int hexval(int c)
{
    if (c >= '0' && c <= '9') return c - '0';
    if (c >= 'a' && c <= 'f') return c - 'a' + 10;
    if (c >= 'A' && c <= 'F') return c - 'A' + 10;
    return -1;
}

static void pct_decode(char *s)
{
    char *o = s;
    while (*s) {
        if (*s == '%' && hexval(s[1]) >= 0 && hexval(s[2]) >= 0) {
            *o++ = (char)(hexval(s[1]) * 16 + hexval(s[2]));
            s += 3;
        } else {
            *o++ = *s++;
        }
    }
    *o = 0;
}

static void pct_encode(const char *s, char *out, size_t cap)
{
    static const char hx[] = "0123456789ABCDEF";
    size_t o = 0;
    if (!s) s = "?";
    for (; *s && o + 4 < cap; s++) {
        unsigned char c = (unsigned char)*s;
        if (c <= ' ' || c == '%' || c >= 127) {
            out[o++] = '%';
            out[o++] = hx[c >> 4];
            out[o++] = hx[c & 15];
        } else {
            out[o++] = (char)c;
        }
    }
    out[o] = 0;
}

static void *real_dlsym_bootstrap(const char *name)
{
    /* We interpose dlsym itself, so fetch the real one through dlvsym. */
    if (!real_dlsym) {
        real_dlsym = dlvsym(RTLD_NEXT, "dlsym", "GLIBC_2.34");
        if (!real_dlsym) real_dlsym = dlvsym(RTLD_NEXT, "dlsym", "GLIBC_2.2.5");
    }
    return real_dlsym ? real_dlsym(RTLD_NEXT, name) : NULL;
}

static void parse_list(const char *s, struct rule *r)
{
    r->nlist = 0;
    while (*s && r->nlist < MAX_SHORTS) {
        r->list[r->nlist++] = strtol(s, (char **)&s, 10);
        if (*s == ',') s++;
        else break;
    }
}

static void fail_plan(const char *what, const char *line)
{
    char buf[512];
    int n = snprintf(buf, sizeof buf, "simworld: bad plan (%s): %s\n", what, line);
    real_write(2, buf, (size_t)n);
    _exit(125);
}

static void parse_plan(const char *path)
{
    FILE *f = fopen(path, "r");
    char line[2048];
    if (!f) fail_plan("cannot open", path);
    while (fgets(line, sizeof line, f)) {
        char a[64], b[64], c[512], d[64], e[1024];
        size_t len = strlen(line);
        while (len && (line[len - 1] == '\n' || line[len - 1] == '\r')) line[--len] = 0;
        if (!len || line[0] == '#') continue;
        if (!strncmp(line, "seed ", 5)) {
            const char *h = line + 5;
            nseed = 0;
            while (hexval(h[0]) >= 0 && hexval(h[1]) >= 0 && nseed < (int)sizeof seed_bytes) {
                seed_bytes[nseed++] = (unsigned char)(hexval(h[0]) * 16 + hexval(h[1]));
                h += 2;
            }
            continue;
        }
        if (!strcmp(line, "canary")) {
            continue; /* handled by the driver through the log header */
        }
        if (sscanf(line, "rule %63s %63s %511s %63s %1023s", a, b, c, d, e) == 5) {
            struct rule *r;
            int k;
            if (nrules >= MAX_RULES) fail_plan("too many rules", line);
            r = &rules[nrules++];
            memset(r, 0, sizeof *r);
            snprintf(r->id, sizeof r->id, "%s", a);
            r->call = -1;
            for (k = 0; k < C_NKINDS; k++)
                if (!strcmp(b, call_names[k])) r->call = k;
            if (r->call < 0) fail_plan("unknown call", line);
            snprintf(r->pattern, sizeof r->pattern, "%s", c);
            pct_decode(r->pattern);
            if (!strcmp(d, "*")) {
                r->nth_mode = 2;
            } else if (d[0] == '%') {
                r->nth_mode = 3;
                if (sscanf(d, "%%%ld:%ld", &r->nth_a, &r->nth_b) != 2 || r->nth_a <= 0)
                    fail_plan("bad nth", line);
            } else {
                char *end;
                r->nth_a = strtol(d, &end, 10);
                r->nth_mode = (*end == '+') ? 1 : 0;
                if (r->nth_a <= 0) fail_plan("bad nth", line);
            }
            if (!strncmp(e, "short:", 6)) {
                r->action = A_SHORT;
                parse_list(e + 6, r);
                if (!r->nlist) fail_plan("empty short list", line);
            } else if (!strcmp(e, "eintr")) {
                r->action = A_EINTR;
                r->err = EINTR;
            } else if (!strncmp(e, "errno:", 6)) {
                r->action = A_ERRNO;
                r->err = 0;
                for (k = 0; errnos[k].name; k++)
                    if (!strcmp(e + 6, errnos[k].name)) r->err = errnos[k].value;
                if (!r->err) fail_plan("unknown errno", line);
            } else if (!strcmp(e, "kill")) {
                r->action = A_KILL;
            } else if (!strcmp(e, "killafter")) {
                r->action = A_KILLAFTER;
            } else if (!strcmp(e, "null")) {
                r->action = A_NULL;
            } else if (!strcmp(e, "gone")) {
                r->action = A_GONE;
            } else if (!strncmp(e, "perm:", 5)) {
                r->action = A_PERM;
                parse_list(e + 5, r);
            } else if (!strcmp(e, "stall")) {
                r->action = A_STALL;
            } else if (!strcmp(e, "rdonly")) {
                r->action = A_RDONLY;
                r->err = EACCES;
            } else if (!strcmp(e, "xdev")) {
                r->action = A_XDEV;
                r->err = EXDEV;
            } else if (!strncmp(e, "size:", 5)) {
                r->action = A_SIZE;
                parse_list(e + 5, r);
                if (!r->nlist) fail_plan("empty size", line);
            } else {
                fail_plan("unknown action", line);
            }
            continue;
        }
        fail_plan("unknown directive", line);
    }
    fclose(f);
}

static void init(void)
{
    const char *p;
    if (initialised) return;
    initialised = 1;
    real_open = real_dlsym_bootstrap("open");
    real_open64 = real_dlsym_bootstrap("open64");
    real_openat = real_dlsym_bootstrap("openat");
    real_openat64 = real_dlsym_bootstrap("openat64");
    real_read = real_dlsym_bootstrap("read");
    real_write = real_dlsym_bootstrap("write");
    real_writev = real_dlsym_bootstrap("writev");
    real_close = real_dlsym_bootstrap("close");
    real_unlink = real_dlsym_bootstrap("unlink");
    real_unlinkat = real_dlsym_bootstrap("unlinkat");
    real_opendir = real_dlsym_bootstrap("opendir");
    real_readdir64 = real_dlsym_bootstrap("readdir64");
    real_closedir = real_dlsym_bootstrap("closedir");
    real_dlopen = real_dlsym_bootstrap("dlopen");
    real_getrandom = real_dlsym_bootstrap("getrandom");
    real_statx = real_dlsym_bootstrap("statx");
    real_rename = real_dlsym_bootstrap("rename");
    real_lseek = real_dlsym_bootstrap("lseek");
    real_lseek64 = real_dlsym_bootstrap("lseek64");
    real_clock_gettime = real_dlsym_bootstrap("clock_gettime");
    p = getenv("SIMWORLD_CLOCK");
    clock_frozen = p && !strcmp(p, "freeze");
    clock_ticking = p && !strcmp(p, "tick");
    abs_prefix = getenv("SIMWORLD_ABS");
    if (abs_prefix && !*abs_prefix) abs_prefix = NULL;
    abs_prefix_len = abs_prefix ? strlen(abs_prefix) : 0;
    fd_path[0] = "<stdin>";
    fd_path[1] = "<stdout>";
    fd_path[2] = "<stderr>";
    p = getenv("SIMWORLD_LOG");
    if (p && *p) {
        int fd = real_open(p, O_WRONLY | O_CREAT | O_APPEND | O_CLOEXEC, 0644);
        if (fd >= 0) {
            /* park the log on a high descriptor, out of the program's way; under a low RLIMIT_NOFILE take what there is */
            static const int want[] = {1000, 250, 60, 24, 12, 3};
            int k;
            for (k = 0; k < 6 && log_fd < 0; k++) log_fd = fcntl(fd, F_DUPFD_CLOEXEC, want[k]);
            real_close(fd);
        }
        if (log_fd < 0) {
            static const char m[] = "simworld: cannot open log\n";
            real_write(2, m, sizeof m - 1);
            _exit(125);
        }
        real_write(log_fd, "0 start - 0 0 0 -\n", 18);
    }
    p = getenv("SIMWORLD_PLAN");
    plan_file = (p && *p) ? strdup(p) : NULL;
    if (p && *p) parse_plan(p);
}

__attribute__((constructor)) static void ctor(void) { init(); }

static void log_event(const char *call, const char *path, long req, long res, int err, const char *rule)
{
    char enc[1024], buf[1400];
    int n;
    if (log_fd < 0) return;
    pct_encode(path, enc, sizeof enc);
    n = snprintf(buf, sizeof buf, "%ld %s %s %ld %ld %d %s\n", ++seq, call, enc, req, res, err, rule ? rule : "-");
    real_write(log_fd, buf, (size_t)n);
}

/* Strip a leading "./" (repeated). */
static const char *norm(const char *p)
{
    while (p[0] == '.' && p[1] == '/') {
        p += 2;
        while (*p == '/') p++;
    }
    return p;
}

static int is_world_path(const char *p)
{
    if (!p) return 0;
    if (p[0] != '/') return 1;
    if (!abs_prefix || strncmp(p, abs_prefix, abs_prefix_len) || p[abs_prefix_len] != '/') return 0;
    /* the driver's own files (plans, logs, hook output) are not part of the world */
    return strncmp(p + abs_prefix_len, "/.swpriv/", 9) != 0;
}

/* The process stops here until the driver lets it go on (lock is held by the caller and released while waiting). */
static void do_stall(const char *call, const char *path, struct rule *r)
{
    char name[1200];
    int fd, i;
    if (!plan_file) return;
    log_event(call, path, 0, 0, 0, r->id);
    snprintf(name, sizeof name, "%s.reached", plan_file);
    fd = real_open(name, O_WRONLY | O_CREAT, 0644);
    if (fd >= 0) real_close(fd);
    snprintf(name, sizeof name, "%s.release", plan_file);
    pthread_mutex_unlock(&lock);
    for (i = 0; i < 15000; i++) {
        if (access(name, F_OK) == 0) break;
        usleep(1000);
    }
    pthread_mutex_lock(&lock);
}

/* Find the rule that applies to this call, updating counters. */
static struct rule *match_rule(int call, const char *path)
{
    int i;
    struct rule *hit = NULL;
    for (i = 0; i < nrules; i++) {
        struct rule *r = &rules[i];
        int apply = 0;
        if (r->call != call) continue;
        if (fnmatch(r->pattern, path, 0) != 0) continue;
        r->count++;
        switch (r->nth_mode) {
        case 0: apply = r->count == r->nth_a; break;
        case 1: apply = r->count >= r->nth_a; break;
        case 2: apply = 1; break;
        case 3: apply = (r->count % r->nth_a) == r->nth_b; break;
        }
        if (apply && !hit) hit = r;
    }
    return hit;
}

static void do_kill(const char *call, const char *path, struct rule *r)
{
    log_event(call, path, 0, -137, 0, r->id);
    _exit(137);
}

/* ------------------------------------------------------------------ open */

static int open_common(int kind, int dirfd, const char *path, int flags, mode_t mode)
{
    int fd;
    struct rule *r = NULL;
    const char *np;
    init();
    if (!is_world_path(path) || (kind >= 2 && dirfd != AT_FDCWD)) {
        switch (kind) {
        case 0: return real_open(path, flags, mode);
        case 1: return real_open64(path, flags, mode);
        case 2: return real_openat(dirfd, path, flags, mode);
        default: return real_openat64(dirfd, path, flags, mode);
        }
    }
    np = norm(path);
    pthread_mutex_lock(&lock);
    r = match_rule(C_OPEN, np);
    if (r) {
        r->fired++;
        if (r->action == A_KILL) do_kill("open", np, r);
        if (r->action == A_STALL) do_stall("stall-open", np, r);
        if (r->action == A_RDONLY && (flags & O_ACCMODE) == O_RDONLY) { r->fired--; r = NULL; } /* reading a read-only file is fine */
    }
    if (r) {
        if (r->action == A_EINTR || r->action == A_ERRNO || r->action == A_RDONLY) {
            log_event("open", np, flags, -1, r->err, r->id);
            pthread_mutex_unlock(&lock);
            errno = r->err;
            return -1;
        }
    }
    switch (kind) {
    case 0: fd = real_open(path, flags, mode); break;
    case 1: fd = real_open64(path, flags, mode); break;
    case 2: fd = real_openat(dirfd, path, flags, mode); break;
    default: fd = real_openat64(dirfd, path, flags, mode); break;
    }
    {
        int e = errno;
        if (fd >= 0 && fd < MAX_FDS) {
            fd_path[fd] = strdup(np);
        }
        log_event("open", np, flags, fd, fd < 0 ? e : 0, r ? r->id : NULL);
        if (r && r->action == A_KILLAFTER) _exit(137);
        pthread_mutex_unlock(&lock);
        errno = e;
    }
    return fd;
}

#define OPEN_BODY(kind, dirfd)                              \
    mode_t mode = 0;                                        \
    if (flags & (O_CREAT | O_TMPFILE)) {                    \
        va_list ap;                                         \
        va_start(ap, flags);                                \
        mode = va_arg(ap, mode_t);                          \
        va_end(ap);                                         \
    }                                                       \
    return open_common(kind, dirfd, path, flags, mode);

int open(const char *path, int flags, ...) { OPEN_BODY(0, AT_FDCWD) }
int open64(const char *path, int flags, ...) { OPEN_BODY(1, AT_FDCWD) }
int openat(int dirfd, const char *path, int flags, ...) { OPEN_BODY(2, dirfd) }
int openat64(int dirfd, const char *path, int flags, ...) { OPEN_BODY(3, dirfd) }

int close(int fd)
{
    init();
    if (fd == log_fd) return 0; /* nobody closes the log */
    if (fd > 2 && fd < MAX_FDS && fd_path[fd]) {
        pthread_mutex_lock(&lock);
        log_event("close", fd_path[fd], 0, 0, 0, NULL);
        free(fd_path[fd]);
        fd_path[fd] = NULL;
        pthread_mutex_unlock(&lock);
    }
    return real_close(fd);
}

/* ------------------------------------------------------------ read/write */

static long short_limit(struct rule *r)
{
    long v = r->list[(r->fired) % r->nlist];
    return v < 1 ? 1 : v;
}

ssize_t read(int fd, void *buf, size_t count)
{
    struct rule *r;
    const char *path;
    ssize_t res;
    size_t want = count;
    int e, applied = 0;
    init();
    if (fd < 0 || fd >= MAX_FDS || !fd_path[fd] || fd == log_fd) return real_read(fd, buf, count);
    path = fd_path[fd];
    pthread_mutex_lock(&lock);
    r = match_rule(C_READ, path);
    if (r) {
        if (r->action == A_KILL) do_kill("read", path, r);
        if (r->action == A_STALL) { r->fired++; do_stall("stall-read", path, r); }
        if (r->action == A_EINTR || r->action == A_ERRNO) {
            r->fired++;
            log_event("read", path, (long)count, -1, r->err, r->id);
            pthread_mutex_unlock(&lock);
            errno = r->err;
            return -1;
        }
        if (r->action == A_SHORT) {
            long lim = short_limit(r);
            if ((size_t)lim < want) {
                want = (size_t)lim;
                applied = 1;
            }
            r->fired++;
        }
    }
    res = real_read(fd, buf, want);
    e = errno;
    log_event("read", path, (long)count, (long)res, res < 0 ? e : 0, (r && (applied || r->action != A_SHORT)) ? r->id : NULL);
    if (r && r->action == A_KILLAFTER) _exit(137);
    pthread_mutex_unlock(&lock);
    errno = e;
    return res;
}

ssize_t write(int fd, const void *buf, size_t count)
{
    struct rule *r;
    const char *path;
    ssize_t res;
    size_t want = count;
    int e, applied = 0;
    init();
    if (fd < 0 || fd >= MAX_FDS || !fd_path[fd] || fd == log_fd) return real_write(fd, buf, count);
    path = fd_path[fd];
    pthread_mutex_lock(&lock);
    r = match_rule(C_WRITE, path);
    if (r) {
        if (r->action == A_KILL) do_kill("write", path, r);
        if (r->action == A_STALL) { r->fired++; do_stall("stall-write", path, r); }
        if (r->action == A_EINTR || r->action == A_ERRNO) {
            r->fired++;
            log_event("write", path, (long)count, -1, r->err, r->id);
            pthread_mutex_unlock(&lock);
            errno = r->err;
            return -1;
        }
        if (r->action == A_SHORT) {
            long lim = short_limit(r);
            if ((size_t)lim < want) {
                want = (size_t)lim;
                applied = 1;
            }
            r->fired++;
        }
    }
    res = real_write(fd, buf, want);
    e = errno;
    log_event("write", path, (long)count, (long)res, res < 0 ? e : 0, (r && (applied || r->action != A_SHORT)) ? r->id : NULL);
    if (r && r->action == A_KILLAFTER) _exit(137);
    pthread_mutex_unlock(&lock);
    errno = e;
    return res;
}

ssize_t writev(int fd, const struct iovec *iov, int iovcnt)
{
    /* Route vectored writes on tracked descriptors through write(): a
     * partial write of the first non-empty buffer is legal for writev. */
    int i;
    init();
    if (fd < 0 || fd >= MAX_FDS || !fd_path[fd] || fd == log_fd) return real_writev(fd, iov, iovcnt);
    for (i = 0; i < iovcnt; i++)
        if (iov[i].iov_len) return write(fd, iov[i].iov_base, iov[i].iov_len);
    return 0;
}

/* ------------------------------------------------------------ seek, clock */

static long seek_common(int fd, long off, int whence, int wide)
{
    struct rule *r;
    init();
    if (fd > 2 && fd < MAX_FDS && fd_path[fd] && fd != log_fd) {
        pthread_mutex_lock(&lock);
        r = match_rule(C_SEEK, fd_path[fd]);
        if (r && (r->action == A_ERRNO || r->action == A_EINTR)) {
            r->fired++;
            log_event("seek", fd_path[fd], off, -1, r->err, r->id);
            pthread_mutex_unlock(&lock);
            errno = r->err;
            return -1;
        }
        pthread_mutex_unlock(&lock);
    }
    return wide ? (long)real_lseek64(fd, (off64_t)off, whence) : (long)real_lseek(fd, (off_t)off, whence);
}

off_t lseek(int fd, off_t off, int whence) { return (off_t)seek_common(fd, (long)off, whence, 0); }
off64_t lseek64(int fd, off64_t off, int whence) { return (off64_t)seek_common(fd, (long)off, whence, 1); }

/* The thread id a panic message quotes belongs to the OS; its number of digits changes the length of the message and, under a
 * short-write rule, the number of write calls.  Threads are numbered in the order in which they first ask. */
static int tid_next = 40000;
static __thread int tid_mine;

pid_t gettid(void)
{
    if (!tid_mine) tid_mine = __sync_add_and_fetch(&tid_next, 1);
    return tid_mine;
}

int clock_gettime(clockid_t id, struct timespec *ts)
{
    init();
    if (clock_frozen && ts) {
        ts->tv_sec = 1000000;
        ts->tv_nsec = 0;
        return 0;
    }
    if (clock_ticking && ts) {
        long n = ++clock_calls;
        ts->tv_sec = 1000000 + n / 1000;
        ts->tv_nsec = (n % 1000) * 1000000L;
        return 0;
    }
    return real_clock_gettime(id, ts);
}

/* ------------------------------------------------------------ stat, rename */

int statx(int dirfd, const char *path, int flags, unsigned int mask, struct statx *buf)
{
    const char *np = NULL;
    struct rule *r;
    int res, e;
    init();
    if (!real_statx) { errno = ENOSYS; return -1; }
    res = real_statx(dirfd, path, flags, mask, buf);
    e = errno;
    if (path && path[0] == 0 && (flags & AT_EMPTY_PATH)) {
        if (dirfd > 2 && dirfd < MAX_FDS && fd_path[dirfd]) np = fd_path[dirfd];
    } else if (dirfd == AT_FDCWD && is_world_path(path)) {
        np = norm(path);
    }
    if (np && res == 0) {
        pthread_mutex_lock(&lock);
        r = match_rule(C_STAT, np);
        if (r && r->action == A_SIZE) {
            r->fired++;
            buf->stx_size = (unsigned long long)r->list[0];
            log_event("stat", np, 0, (long)r->list[0], 0, r->id);
        }
        pthread_mutex_unlock(&lock);
    }
    errno = e;
    return res;
}

int rename(const char *from, const char *to)
{
    struct rule *r = NULL;
    int res, e;
    init();
    if (!is_world_path(from) && !is_world_path(to)) return real_rename(from, to);
    pthread_mutex_lock(&lock);
    r = match_rule(C_RENAME, norm(to));
    if (r && r->action == A_XDEV) {
        const char *a = strrchr(from, '/'), *b = strrchr(to, '/');
        size_t la = a ? (size_t)(a - from) : 0, lb = b ? (size_t)(b - to) : 0;
        if (la == lb && !strncmp(from, to, la)) r = NULL; /* same directory: an ordinary rename */
    }
    if (r && (r->action == A_ERRNO || r->action == A_EINTR || r->action == A_XDEV)) {
        r->fired++;
        log_event("rename", norm(to), 0, -1, r->err, r->id);
        pthread_mutex_unlock(&lock);
        errno = r->err;
        return -1;
    }
    if (r && r->action == A_KILL) {
        r->fired++;
        do_kill("rename", norm(to), r);     /* the process dies before the new name exists */
    }
    res = real_rename(from, to);
    e = errno;
    if (r && r->action == A_KILLAFTER) r->fired++;
    log_event("rename", norm(to), 0, res, res < 0 ? e : 0, r ? r->id : NULL);
    pthread_mutex_unlock(&lock);
    if (r && r->action == A_KILLAFTER) _exit(137);   /* ... or right after it does */
    errno = e;
    return res;
}

/* ---------------------------------------------------------------- unlink */

static int unlink_common(int at, int dirfd, const char *path, int flags)
{
    struct rule *r;
    const char *np;
    int res, e;
    init();
    if (!is_world_path(path) || (at && dirfd != AT_FDCWD))
        return at ? real_unlinkat(dirfd, path, flags) : real_unlink(path);
    np = norm(path);
    pthread_mutex_lock(&lock);
    r = match_rule(C_UNLINK, np);
    if (r) {
        r->fired++;
        if (r->action == A_KILL) do_kill("unlink", np, r);
        if (r->action == A_STALL) do_stall("stall-unlink", np, r);
        if (r->action == A_ERRNO || r->action == A_EINTR) {
            log_event("unlink", np, 0, -1, r->err, r->id);
            pthread_mutex_unlock(&lock);
            errno = r->err;
            return -1;
        }
        if (r->action == A_GONE) {
            /* somebody else removed it first */
            if (at) real_unlinkat(dirfd, path, flags);
            else real_unlink(path);
            log_event("unlink", np, 0, -1, ENOENT, r->id);
            pthread_mutex_unlock(&lock);
            errno = ENOENT;
            return -1;
        }
    }
    res = at ? real_unlinkat(dirfd, path, flags) : real_unlink(path);
    e = errno;
    log_event("unlink", np, 0, res, res < 0 ? e : 0, r ? r->id : NULL);
    if (r && r->action == A_KILLAFTER) _exit(137);
    pthread_mutex_unlock(&lock);
    errno = e;
    return res;
}

int unlink(const char *path) { return unlink_common(0, AT_FDCWD, path, 0); }
int unlinkat(int dirfd, const char *path, int flags) { return unlink_common(1, dirfd, path, flags); }

/* --------------------------------------------------------------- readdir */

static int cmp_dirent(const void *a, const void *b)
{
    return strcmp(((const struct dirent64 *)a)->d_name, ((const struct dirent64 *)b)->d_name);
}

DIR *opendir(const char *name)
{
    DIR *d;
    int i;
    init();
    d = real_opendir(name);
    if (d && is_world_path(name)) {
        pthread_mutex_lock(&lock);
        for (i = 0; i < MAX_DIRS; i++) {
            if (!dirs[i].dir) {
                memset(&dirs[i], 0, sizeof dirs[i]);
                dirs[i].dir = d;
                snprintf(dirs[i].path, sizeof dirs[i].path, "%s", norm(name));
                if (!dirs[i].path[0]) strcpy(dirs[i].path, ".");
                break;
            }
        }
        log_event("opendir", norm(name), 0, 0, 0, NULL);
        pthread_mutex_unlock(&lock);
    }
    return d;
}

static struct dirstate *find_dir(DIR *d)
{
    int i;
    for (i = 0; i < MAX_DIRS; i++)
        if (dirs[i].dir == d) return &dirs[i];
    return NULL;
}

static void load_dir(struct dirstate *ds)
{
    struct dirent64 *e;
    int cap = 16, i;
    struct rule *perm = NULL;
    ds->entries = malloc(sizeof(struct dirent64) * (size_t)cap);
    ds->n = 0;
    while ((e = real_readdir64(ds->dir)) != NULL) {
        if (ds->n == cap) {
            cap *= 2;
            ds->entries = realloc(ds->entries, sizeof(struct dirent64) * (size_t)cap);
        }
        memcpy(&ds->entries[ds->n++], e, sizeof *e);
    }
    qsort(ds->entries, (size_t)ds->n, sizeof(struct dirent64), cmp_dirent);
    for (i = 0; i < nrules; i++)
        if (rules[i].call == C_READDIR && rules[i].action == A_PERM && fnmatch(rules[i].pattern, ds->path, 0) == 0) {
            perm = &rules[i];
            break;
        }
    if (perm) {
        struct dirent64 *out = malloc(sizeof(struct dirent64) * (size_t)(ds->n ? ds->n : 1));
        char *used = calloc((size_t)ds->n + 1, 1);
        int o = 0;
        for (i = 0; i < perm->nlist; i++) {
            long k = perm->list[i];
            if (k >= 0 && k < ds->n && !used[k]) {
                used[k] = 1;
                out[o++] = ds->entries[k];
            }
        }
        for (i = 0; i < ds->n; i++)
            if (!used[i]) out[o++] = ds->entries[i];
        free(ds->entries);
        free(used);
        ds->entries = out;
        perm->fired++;
        log_event("readdir-order", ds->path, ds->n, 0, 0, perm->id);
    }
    ds->loaded = 1;
}

struct dirent64 *readdir64(DIR *d)
{
    struct dirstate *ds;
    struct dirent64 *res = NULL;
    int i;
    init();
    pthread_mutex_lock(&lock);
    ds = find_dir(d);
    if (!ds) {
        pthread_mutex_unlock(&lock);
        return real_readdir64(d);
    }
    if (!ds->loaded) load_dir(ds);
    ds->calls++;
    for (i = 0; i < nrules; i++) {
        struct rule *r = &rules[i];
        int apply = 0;
        if (r->call != C_READDIR || r->action == A_PERM) continue;
        if (fnmatch(r->pattern, ds->path, 0) != 0) continue;
        r->count++;
        switch (r->nth_mode) {
        case 0: apply = r->count == r->nth_a; break;
        case 1: apply = r->count >= r->nth_a; break;
        case 2: apply = 1; break;
        case 3: apply = (r->count % r->nth_a) == r->nth_b; break;
        }
        if (!apply) continue;
        r->fired++;
        if (r->action == A_KILL) do_kill("readdir", ds->path, r);
        if (r->action == A_ERRNO || r->action == A_EINTR) {
            log_event("readdir", ds->path, 0, -1, r->err, r->id);
            pthread_mutex_unlock(&lock);
            errno = r->err;
            return NULL;
        }
    }
    if (ds->pos < ds->n) {
        res = &ds->entries[ds->pos++];
        log_event("readdir", res->d_name, 0, 1, 0, NULL);
    } else {
        log_event("readdir", ds->path, 0, 0, 0, NULL);
    }
    pthread_mutex_unlock(&lock);
    return res;
}

int closedir(DIR *d)
{
    struct dirstate *ds;
    init();
    pthread_mutex_lock(&lock);
    ds = find_dir(d);
    if (ds) {
        free(ds->entries);
        memset(ds, 0, sizeof *ds);
    }
    pthread_mutex_unlock(&lock);
    return real_closedir(d);
}

/* ---------------------------------------------------------------- loader */

void *dlopen(const char *file, int mode)
{
    struct rule *r;
    void *h;
    init();
    if (!file) return real_dlopen(file, mode);
    pthread_mutex_lock(&lock);
    r = match_rule(C_DLOPEN, norm(file));
    if (r) {
        r->fired++;
        if (r->action == A_KILL) do_kill("dlopen", file, r);
        if (r->action == A_NULL || r->action == A_ERRNO) {
            log_event("dlopen", norm(file), mode, 0, 0, r->id);
            pthread_mutex_unlock(&lock);
            /* make dlerror() report something, as a failed load would */
            real_dlopen("/nonexistent/simworld-injected-dlopen-failure.so", RTLD_NOW);
            return NULL;
        }
    }
    pthread_mutex_unlock(&lock);
    h = real_dlopen(file, mode);
    pthread_mutex_lock(&lock);
    log_event("dlopen", norm(file), mode, h != NULL, 0, NULL);
    pthread_mutex_unlock(&lock);
    return h;
}

void *dlsym(void *handle, const char *name)
{
    struct rule *r;
    void *p;
    if (!real_dlsym) real_dlsym_bootstrap("dlsym");
    if (!initialised || handle == RTLD_NEXT || handle == RTLD_DEFAULT || !name) return real_dlsym(handle, name);
    pthread_mutex_lock(&lock);
    r = match_rule(C_DLSYM, name);
    if (r && (r->action == A_NULL || r->action == A_ERRNO)) {
        r->fired++;
        log_event("dlsym", name, 0, 0, 0, r->id);
        pthread_mutex_unlock(&lock);
        real_dlsym(handle, "simworld_injected_missing_symbol");
        return NULL;
    }
    pthread_mutex_unlock(&lock);
    p = real_dlsym(handle, name);
    pthread_mutex_lock(&lock);
    log_event("dlsym", name, 0, p != NULL, 0, NULL);
    pthread_mutex_unlock(&lock);
    return p;
}

/* ------------------------------------------------------------- getrandom */

ssize_t getrandom(void *buf, size_t buflen, unsigned int flags)
{
    size_t i;
    init();
    if (!nseed) return real_getrandom ? real_getrandom(buf, buflen, flags) : -1;
    for (i = 0; i < buflen; i++) ((unsigned char *)buf)[i] = seed_bytes[i % (size_t)nseed];
    pthread_mutex_lock(&lock);
    log_event("getrandom", "-", (long)buflen, (long)buflen, 0, "seed");
    pthread_mutex_unlock(&lock);
    return (ssize_t)buflen;
}

/* At exit, report how often each rule fired. */
__attribute__((destructor)) static void dtor(void)
{
    int i;
    char buf[256];
    if (log_fd < 0) return;
    for (i = 0; i < nrules; i++) {
        int n = snprintf(buf, sizeof buf, "# rule %s count %ld fired %ld\n", rules[i].id, rules[i].count, rules[i].fired);
        real_write(log_fd, buf, (size_t)n);
    }
}
