"""simworld driver core: seeds, build, world execution, plans, parallel batches,
evidence, replay files.  Standard library only (/usr/bin/python3)."""
import base64
import hashlib
import json
import multiprocessing
import os
import shutil
import signal
import subprocess
import sys
import time

VERIF = os.path.dirname(os.path.dirname(os.path.dirname(os.path.abspath(__file__))))
REPO = os.environ.get("SIMWORLD_REPO", "/repo")
BUILD = os.path.join(VERIF, ".build")
SCRATCH = os.path.join(VERIF, ".scratch")
MSCRIPT = os.path.join(BUILD, "mscript", "debug", "mscript")
SHIM = os.path.join(BUILD, "shim", "libsimworld.so")
PROBE = os.path.join(BUILD, "probe", "debug", "libprobe.so")
WORKERS = int(os.environ.get("SIMWORLD_WORKERS", "16"))
MASK = (1 << 64) - 1


class HarnessError(Exception):
    pass


# ----------------------------------------------------------------- randomness

def splitmix64(x):
    x = (x + 0x9E3779B97F4A7C15) & MASK
    z = x
    z = ((z ^ (z >> 30)) * 0xBF58476D1CE4E5B9) & MASK
    z = ((z ^ (z >> 27)) * 0x94D049BB133111EB) & MASK
    return z ^ (z >> 31)


def derive(seed, *labels):
    """Derive a 64-bit sub-seed from a seed and labels (ints/strings), independent of
    Python's hash randomisation."""
    x = splitmix64(seed & MASK)
    for lab in labels:
        if isinstance(lab, str):
            h = int.from_bytes(hashlib.sha256(lab.encode()).digest()[:8], "big")
        else:
            h = int(lab) & MASK
        x = splitmix64(x ^ h)
    return x


class Rng:
    """Small explicit PRNG (xorshift64*), so that a case is a pure function of its seed."""

    def __init__(self, seed):
        self.s = splitmix64(seed & MASK) or 1

    def next(self):
        x = self.s
        x ^= (x >> 12)
        x ^= (x << 25) & MASK
        x ^= (x >> 27)
        self.s = x
        return (x * 0x2545F4914F6CDD1D) & MASK

    def below(self, n):
        return self.next() % n if n > 0 else 0

    def range(self, lo, hi):
        """inclusive"""
        return lo + self.below(hi - lo + 1)

    def chance(self, num, den):
        return self.below(den) < num

    def choice(self, seq):
        return seq[self.below(len(seq))]

    def weighted(self, pairs):
        total = sum(w for _, w in pairs)
        k = self.below(total)
        for v, w in pairs:
            if k < w:
                return v
            k -= w
        return pairs[-1][0]

    def shuffle(self, seq):
        seq = list(seq)
        for i in range(len(seq) - 1, 0, -1):
            j = self.below(i + 1)
            seq[i], seq[j] = seq[j], seq[i]
        return seq

    def sample(self, seq, k):
        return self.shuffle(seq)[:k]

    def hexbytes(self, n):
        return "".join("%02x" % self.below(256) for _ in range(n))


# ---------------------------------------------------------------------- build

def sh(cmd, **kw):
    return subprocess.run(cmd, shell=True, stdout=subprocess.PIPE, stderr=subprocess.STDOUT, **kw)


def build_all(need_probe=False, quiet=False):
    """Rebuild the shim, mscript (from /repo's working tree, hooks on) and optionally
    the FFI probe.  Any failure is a harness error (exit 2)."""
    os.makedirs(os.path.join(BUILD, "shim"), exist_ok=True)
    src = os.path.join(VERIF, "sim", "shim", "simworld.c")
    r = sh("gcc -O2 -shared -fPIC -o %s %s -ldl -lpthread" % (SHIM, src))
    if r.returncode != 0:
        raise HarnessError("shim build failed:\n" + r.stdout.decode(errors="replace"))
    env = dict(os.environ)
    env["RUSTFLAGS"] = "--cfg mscript_verif"
    env["CARGO_NET_OFFLINE"] = "true"
    r = sh("cargo build --offline --manifest-path %s/Cargo.toml --target-dir %s/mscript" % (REPO, BUILD), env=env)
    if r.returncode != 0:
        raise HarnessError("mscript build failed:\n" + r.stdout.decode(errors="replace")[-6000:])
    if need_probe:
        pdir = os.path.join(VERIF, "sim", "probe")
        shutil.copyfile(os.path.join(REPO, "Cargo.lock"), os.path.join(pdir, "Cargo.lock"))
        os.makedirs(os.path.join(BUILD, "probe_lazy"), exist_ok=True)
        stub = os.path.join(BUILD, "probe_lazy", "stub.o")
        r = sh("gcc -fPIC -fplt -O0 -c %s/stub.c -o %s" % (pdir, stub))
        if r.returncode != 0:
            raise HarnessError("probe stub build failed:\n" + r.stdout.decode(errors="replace"))
        lazy_env = dict(env)
        lazy_env["RUSTFLAGS"] = env["RUSTFLAGS"] + " -C link-arg=%s -C link-arg=-Wl,-z,lazy" % stub
        for feat, tdir, e in (("", "probe", env), ("--features tag_b", "probe_b", env), ("--features lazy_dep", "probe_lazy", lazy_env)):
            r = sh("cargo build --offline %s --manifest-path %s/Cargo.toml --target-dir %s/%s" % (feat, pdir, BUILD, tdir), env=e)
            if r.returncode != 0:
                raise HarnessError("probe build failed:\n" + r.stdout.decode(errors="replace")[-6000:])
    self_test()


def self_test():
    """A silently non-interposed symbol must become exit 2, not a vacuous pass."""
    d = os.path.join(SCRATCH, "selftest")
    shutil.rmtree(d, ignore_errors=True)
    os.makedirs(d)
    with open(os.path.join(d, "t.ms"), "w") as f:
        f.write('m = map[str, int]\nm["a"] = 1\nprint "canary line"\n')
    plan = {"seed": "00112233445566778899aabbccddeeff", "rules": []}
    p = run_cmd(d, ["run", "t.ms", "-q"], plan=plan, gc="1:1000000")
    calls = {(e["call"], e["path"]) for e in p["events"]}
    seen = {("open", "t.ms"), ("read", "t.ms")} <= calls and any(e["rule"] == "seed" for e in p["events"])
    # interposition is judged on calls every build makes (open/read of the source, the hash seed).  Whether the program then
    # runs correctly is the business of the checks, not of the self-test: a broken tree must give VIOLATION, not exit 2.
    ok = seen
    if p["rc"] == 0:
        ok = ok and p["out"] == b"canary line\n" and ("write", "<stdout>") in calls and p["stats"].get("forced_gc", 0) > 0
    # the rule engine itself: a short-write rule on stdout must fire when the program gets that far
    plan2 = {"seed": "00112233445566778899aabbccddeeff",
             "rules": [{"id": "c1", "call": "write", "pat": "<stdout>", "nth": "1", "act": "short:3"}]}
    p2 = run_cmd(d, ["run", "t.ms", "-q"], plan=plan2)
    if p["rc"] == 0 and p2["rc"] == 0:
        ok = ok and any(e["rule"] == "c1" for e in p2["events"])
    fired = sorted(calls)
    shutil.rmtree(d, ignore_errors=True)
    if not ok:
        raise HarnessError("shim/hook self-test failed: rc=%r out=%r calls=%r stats=%r err=%r"
                           % (p["rc"], p["out"], fired[:12], p["stats"], p["err"][-500:]))


# --------------------------------------------------------------- running cmds

def plan_text(plan):
    lines = []
    if plan.get("seed"):
        lines.append("seed " + plan["seed"])
    for r in plan.get("rules", []):
        lines.append("rule %s %s %s %s %s" % (r["id"], r["call"], pct(r["pat"]), r["nth"], r["act"]))
    return "\n".join(lines) + "\n"


def pct(s):
    out = []
    for ch in s.encode():
        if ch <= 32 or ch == 37 or ch >= 127:
            out.append("%%%02X" % ch)
        else:
            out.append(chr(ch))
    return "".join(out)


def unpct(s):
    b = bytearray()
    i = 0
    while i < len(s):
        if s[i] == "%" and i + 2 < len(s) + 0 and i + 2 <= len(s) - 0:
            try:
                b.append(int(s[i + 1:i + 3], 16))
                i += 3
                continue
            except ValueError:
                pass
        b.extend(s[i].encode())
        i += 1
    return b.decode(errors="replace")


def parse_log(path):
    events = []
    try:
        with open(path, "r", errors="replace") as f:
            for line in f:
                if line.startswith("#"):
                    continue
                parts = line.split()
                if len(parts) != 7:
                    continue
                events.append({"seq": int(parts[0]), "call": parts[1], "path": unpct(parts[2]),
                               "req": int(parts[3]), "res": int(parts[4]), "errno": int(parts[5]),
                               "rule": parts[6]})
    except FileNotFoundError:
        pass
    return events


def parse_stats(path):
    st = {"ops": {}}
    try:
        with open(path) as f:
            for line in f:
                p = line.split()
                if len(p) == 2:
                    st[p[0]] = st.get(p[0], 0) + int(p[1])
                elif len(p) == 3 and p[0] == "op":
                    st["ops"][int(p[1])] = st["ops"].get(int(p[1]), 0) + int(p[2])
    except FileNotFoundError:
        pass
    return st


_cmd_counter = [0]


def run_cmd(cwd, args, plan=None, gc=None, streams="pipes", timeout=20, dump=False, binary=None,
            extra_env=None, during=None, nofile=None, gone_cwd=False):
    """Run one mscript CLI process inside the simulated world.  `plan` fixes every
    environment decision of the shim; `gc` = "<seed>:<ppm>" fixes the collector schedule.
    streams: "pipes" (stdout and stderr separate), "one" (both into one pipe).
    during: a callable run while this process is stopped at the `stall` rule of its plan (two-process schedules: the
    simulator decides at which call of this process the other one runs, from start to end); if the process ends without
    reaching the rule, `during` runs after it."""
    _cmd_counter[0] += 1
    n = _cmd_counter[0]
    priv = os.path.join(worker_dir(), ".swpriv")
    os.makedirs(priv, exist_ok=True)
    plan_path = os.path.join(priv, "plan%d.txt" % n)
    log_path = os.path.join(priv, "log%d.txt" % n)
    stats_path = os.path.join(priv, "stats%d.txt" % n)
    dump_path = os.path.join(priv, "dump%d.txt" % n)
    with open(plan_path, "w") as f:
        f.write(plan_text(plan or {}))
    # every worker has a temporary directory of its own (two workers never meet in /tmp), and absolute paths below the
    # worker's scratch directory are part of the simulated world
    tmpdir = os.path.join(worker_dir(), "tmp")
    os.makedirs(tmpdir, exist_ok=True)
    env = {"PATH": "/usr/bin:/bin", "RUST_BACKTRACE": "0", "NO_COLOR": "1", "LD_PRELOAD": SHIM,
           "SIMWORLD_PLAN": plan_path, "SIMWORLD_LOG": log_path, "MSCRIPT_VERIF_STATS": stats_path,
           "HOME": "/nonexistent", "LANG": "C.UTF-8", "TMPDIR": tmpdir, "SIMWORLD_ABS": worker_dir(),
           # time belongs to the simulator.  By default the clock stands still (every reading is the same instant); a case may
           # ask for the ticking clock (the n-th reading of a thread is n ms later) through extra_env
           "SIMWORLD_CLOCK": "freeze"}
    if gc:
        env["MSCRIPT_VERIF_GC"] = gc
    if dump:
        env["MSCRIPT_VERIF_DUMP"] = dump_path
    if extra_env:
        env.update(extra_env)
    if env.get("SIMWORLD_CLOCK") == "tick" and ("--verbose" in args or "--profile" in args or not ("-q" in args or "--quick" in args or args[0] in ("execute", "transpile", "clean"))):
        # elapsed times reach the output of these commands (banner, profile report), and how often a process reads the
        # clock is not quite repeatable (helper threads): they keep the standing clock
        env["SIMWORLD_CLOCK"] = "freeze"
    argv = [binary or MSCRIPT] + list(args)
    pre = None
    if nofile or gone_cwd:
        # nofile: a low limit on open descriptors (RLIMIT_NOFILE) for this process only
        # gone_cwd: the process starts in a directory that has been removed (getcwd fails); the caller names files absolutely
        import resource
        gone = os.path.join(worker_dir(), "gone%d" % n)

        def pre():
            if gone_cwd:
                os.mkdir(gone)
                os.chdir(gone)
                os.rmdir(gone)
            if nofile:
                resource.setrlimit(resource.RLIMIT_NOFILE, (nofile, nofile))
    t0 = time.time()
    stalled = None
    if during is not None:
        for suffix in (".reached", ".release"):
            try:
                os.unlink(plan_path + suffix)
            except FileNotFoundError:
                pass
        proc = subprocess.Popen(argv, cwd=cwd, env=env, stdin=subprocess.DEVNULL, stdout=subprocess.PIPE,
                                stderr=subprocess.STDOUT if streams == "one" else subprocess.PIPE, preexec_fn=pre)
        stalled = False
        while time.time() - t0 < timeout:
            if os.path.exists(plan_path + ".reached"):
                stalled = True
                break
            if proc.poll() is not None:
                break
            time.sleep(0.002)
        during()
        with open(plan_path + ".release", "w"):
            pass
        try:
            out, err = proc.communicate(timeout=timeout)
            rc, timed_out = proc.returncode, False
        except subprocess.TimeoutExpired:
            proc.kill()
            out, err = proc.communicate()
            rc, timed_out = -999, True
        err = err or b""
        for suffix in (".reached", ".release"):
            try:
                os.unlink(plan_path + suffix)
            except FileNotFoundError:
                pass
    else:
        try:
            proc = subprocess.run(argv, cwd=cwd, env=env, stdin=subprocess.DEVNULL, stdout=subprocess.PIPE,
                                  stderr=subprocess.STDOUT if streams == "one" else subprocess.PIPE,
                                  timeout=timeout, preexec_fn=pre)
            rc, out, err = proc.returncode, proc.stdout, proc.stderr or b""
            timed_out = False
        except subprocess.TimeoutExpired as e:
            rc, out, err, timed_out = -999, e.stdout or b"", e.stderr or b"", True
    res = {"args": list(args), "rc": rc, "out": out, "err": err, "timeout": timed_out, "stalled": stalled,
           "events": parse_log(log_path), "stats": parse_stats(stats_path), "wall": time.time() - t0}
    if dump:
        try:
            with open(dump_path, "r", errors="replace") as f:
                res["dump"] = f.read()
            # an entry file spelled as an absolute path embeds the world directory, which differs between the legs of a case
            import re
            res["dump"] = re.sub(re.escape(worker_dir()) + r"/[a-z0-9]+(?=/)", "<world>", res["dump"])
        except FileNotFoundError:
            res["dump"] = ""
    for p in (plan_path, log_path, stats_path, dump_path):
        try:
            os.unlink(p)
        except FileNotFoundError:
            pass
    return res


PROFILE_REPORT = None


def strip_profile(out):
    """Program output without the report `run --profile` appends to it: the report follows after one empty line, and may
    be wrapped in colour escapes when colours are forced."""
    import re
    global PROFILE_REPORT
    if PROFILE_REPORT is None:
        PROFILE_REPORT = re.compile(rb"(?:\x1b\[[0-9;]*m)*\n(?:\x1b\[[0-9;]*m)*Runtime Profile:")
    is_str = isinstance(out, str)
    b = out.encode("utf-8", "surrogateescape") if is_str else out
    hits = list(PROFILE_REPORT.finditer(b))
    if hits:
        b = b[:hits[-1].start()]
    return b.decode("utf-8", "surrogateescape") if is_str else b


CASE_DIR = [None]


def process_dir(name="w"):
    """Scratch directory of this worker process (things made once per worker, e.g. its copies of the probe libraries)."""
    ident = multiprocessing.current_process()._identity
    return os.path.join(SCRATCH, "%s%02d" % (name, ident[0] % 100 if ident else 0))


def worker_dir(name="w"):
    """Scratch directory of the case being run.  Its name is a function of the case (property + case id), has a fixed length
    and contains neither the pid nor the worker's number: an absolute path can leak into program output and into hash
    maps keyed by paths (an entry file named absolutely), so the same case must see the same path whichever worker runs
    it, in the batch, in the re-runs of the triage and in `./check replay`.  Outside a case: the worker's own directory."""
    if CASE_DIR[0]:
        return os.path.join(SCRATCH, CASE_DIR[0])
    return process_dir(name)


def run_case_in_dir(mod, case):
    """mod.run_case(case) with the case's own scratch directory, removed afterwards."""
    CASE_DIR[0] = "k" + hashlib.sha1(("%s/%s" % (case.get("prop"), case.get("id"))).encode()).hexdigest()[:12]
    try:
        return mod.run_case(case)
    finally:
        shutil.rmtree(os.path.join(SCRATCH, CASE_DIR[0]), ignore_errors=True)
        CASE_DIR[0] = None


def fresh_world(files=None, sub="world"):
    """Create an empty project directory for this worker and populate it.  `files` maps
    relative path -> bytes/str."""
    base = worker_dir()
    d = os.path.join(base, sub)
    shutil.rmtree(d, ignore_errors=True)
    os.makedirs(d)
    for rel, content in (files or {}).items():
        p = os.path.join(d, rel)
        os.makedirs(os.path.dirname(p), exist_ok=True)
        if isinstance(content, str):
            content = content.encode()
        with open(p, "wb") as f:
            f.write(content)
    return d


# ----------------------------------------------------------- result summaries

def fired_kinds(events, rules):
    """Count fault kinds that actually fired (not merely planned)."""
    by_id = {r["id"]: r for r in (rules or [])}
    out = {}
    for e in events:
        rid = e["rule"]
        if rid == "-" or rid == "seed":
            continue
        r = by_id.get(rid)
        kind = (r["call"] + ":" + r["act"].split(":")[0]) if r else rid
        if r and r["act"].startswith("errno:"):
            kind = r["call"] + ":" + r["act"]
        out[kind] = out.get(kind, 0) + 1
    return out


def event_signature(events):
    """Normalised event-log signature: sequence of (call, target class, outcome) with
    sizes bucketed; the measure of 'distinct interleavings'."""
    h = hashlib.sha256()
    for e in events:
        p = e["path"]
        if p.startswith("<"):
            cls = p
        else:
            cls = "*." + p.rsplit(".", 1)[-1] if "." in p else "other"
        res = e["res"]
        bucket = "neg" if res < 0 else ("0" if res == 0 else str(min(res.bit_length(), 14)))
        h.update(("%s|%s|%s|%s;" % (e["call"], cls, bucket, "f" if e["rule"] not in ("-",) else "-")).encode())
    return h.hexdigest()[:16]


def merge_counts(dst, src):
    for k, v in src.items():
        dst[k] = dst.get(k, 0) + v


class Tally:
    """Aggregates per-case statistics into the evidence record."""

    def __init__(self):
        self.evaluations = 0
        self.procs = 0
        self.events = 0
        self.instructions = 0
        self.forced_gc = 0
        self.fired = {}
        self.sigs = set()
        self.shapes = set()
        self.nontrivial = set()
        self.ops = set()
        self.probes = {}
        self.batches = {}
        self.samples = []
        self.observations = {}
        self.hash_seeds = set()

    def add(self, case, res):
        self.evaluations += 1
        st = res.get("stats", {})
        self.procs += st.get("procs", 0)
        self.events += st.get("events", 0)
        self.instructions += st.get("instructions", 0)
        self.forced_gc += st.get("forced_gc", 0)
        merge_counts(self.fired, st.get("fired", {}))
        merge_counts(self.probes, st.get("probes", {}))
        merge_counts(self.observations, st.get("observations", {}))
        for s in st.get("sigs", []):
            self.sigs.add(s)
        for o in st.get("ops", []):
            self.ops.add(o)
        for h in st.get("hash_seeds", []):
            self.hash_seeds.add(h)
        shape = st.get("shape")
        if shape is not None:
            self.shapes.add(shape)
            if st.get("nontrivial", True):
                self.nontrivial.add(shape)
        b = case.get("batch", "default")
        self.batches[b] = self.batches.get(b, 0) + 1
        if len(self.samples) < 4 and st.get("sample") is not None:
            self.samples.append(st["sample"])


def stats_of(procs, rules_by_proc=None):
    """Common statistics over the processes of one case."""
    st = {"procs": len(procs), "events": 0, "instructions": 0, "forced_gc": 0, "fired": {}, "sigs": [],
          "ops": set()}
    for i, p in enumerate(procs):
        st["events"] += len(p["events"])
        st["instructions"] += p["stats"].get("instructions", 0)
        st["forced_gc"] += p["stats"].get("forced_gc", 0)
        rules = (rules_by_proc[i] if rules_by_proc else None) or []
        merge_counts(st["fired"], fired_kinds(p["events"], rules))
        st["sigs"].append(event_signature(p["events"]))
        st["ops"].update(p["stats"].get("ops", {}).keys())
    st["ops"] = sorted(st["ops"])
    st["digest"] = digest_of(procs)
    return st


_THREAD_ID = None


def digest_of(procs):
    """Digest of everything observable about the processes of a case (exit codes, both streams, complete
    event logs); the determinism protocol compares it across repeated executions.  Thread ids in panic
    messages and addresses are normalised (ASLR and pids are not owned by the simulator)."""
    import re
    global _THREAD_ID
    if _THREAD_ID is None:
        _THREAD_ID = (re.compile(rb"thread '([^']*)' \(\d+\)"), re.compile(rb"0x[0-9a-fA-F]{6,}"),
                      re.compile(re.escape(SCRATCH.encode()) + rb"/(?:w\d\d|k[0-9a-f]{12})"),
                      # the profile report quotes the process's memory usage as the OS accounts it: not owned by the simulator
                      re.compile(rb"(Physical|Virtual) memory: \d+ bytes"))
    h = hashlib.sha256()
    for p in procs:
        h.update(repr(p["rc"]).encode())
        for stream in (p["out"], p["err"]):
            t = _THREAD_ID[0].sub(rb"thread '\1' (N)", stream)
            t = _THREAD_ID[1].sub(b"0xADDR", t)
            t = _THREAD_ID[2].sub(b"<scratch>", t)
            t = _THREAD_ID[3].sub(rb"\1 memory: N bytes", t)
            h.update(t)
            h.update(b"|")
        panicked = b"panicked at" in p["err"] or b"panicked at" in p["out"] or "--profile" in p["args"]
        for e in p["events"]:
            if panicked and e["path"] in ("<stderr>", "<stdout>") and e["call"] == "write":
                # a panic message carries the OS thread id, the profile report the memory usage as the OS accounts it: the
                # digit count changes the write sizes and, under a short-write rule, the NUMBER of writes (and with it the
                # sequence numbers of everything after them) - the stream writes of such a process are not compared
                continue
            path = _THREAD_ID[2].sub(b"<scratch>", e["path"].encode("utf-8", "surrogateescape")).decode("utf-8", "surrogateescape")
            h.update(("%d,%s,%s,%d,%d,%d,%s;" % (0 if panicked else e["seq"], e["call"], path, e["req"], e["res"], e["errno"], e["rule"])).encode("utf-8", "surrogateescape"))
    return h.hexdigest()[:20]


def shape_hash(*parts):
    h = hashlib.sha256()
    for p in parts:
        h.update(json.dumps(p, sort_keys=True, default=str).encode())
        h.update(b"|")
    return h.hexdigest()[:16]


# --------------------------------------------------------------- batch runner

def _init_worker():
    signal.signal(signal.SIGINT, signal.SIG_IGN)


def _run_one(arg):
    modname, case = arg
    mod = sys.modules.get(modname) or __import__(modname)
    try:
        res = run_case_in_dir(mod, case)
    except HarnessError as e:
        res = {"ok": False, "harness_error": str(e)}
    except Exception as e:  # a crash of the driver is a harness error, never a verdict
        import traceback
        res = {"ok": False, "harness_error": "driver exception: %r\n%s" % (e, traceback.format_exc())}
    return case, res


def run_batch(modname, cases, deadline=None, max_failures=20, known=None, known_hits=None):
    """Run cases on the worker pool.  Returns (tally, failures, harness_errors).  Failures that `known`
    recognises as listed findings are counted in known_hits and do not end the batch."""
    tally = Tally()
    failures = []
    herrs = []
    gen_error = []

    def guarded():
        # an exception inside the case generator must not silently shorten the batch
        try:
            for c in cases:
                yield (modname, c)
        except Exception as e:
            import traceback
            gen_error.append("case generator failed: %r\n%s" % (e, traceback.format_exc()))

    ctx = multiprocessing.get_context("fork")
    with ctx.Pool(WORKERS, initializer=_init_worker) as pool:
        it = pool.imap_unordered(_run_one, guarded(), chunksize=4)
        for case, res in it:
            if "harness_error" in res:
                herrs.append((case, res["harness_error"]))
                if len(herrs) > 5:
                    break
                continue
            tally.add(case, res)
            if not res["ok"]:
                kid = known(case, res) if known else None
                if kid:
                    known_hits[kid] = known_hits.get(kid, 0) + 1
                    continue
                failures.append((case, res))
                if len(failures) >= max_failures:
                    break
            if deadline and time.time() > deadline:
                break
        pool.terminate()
    for g in gen_error:
        herrs.append(({"id": "generator"}, g))
    return tally, failures, herrs


def cleanup_scratch():
    shutil.rmtree(SCRATCH, ignore_errors=True)


# ------------------------------------------------------------------- evidence

def opcode_names_missing(seen):
    """Names of the instruction-table entries no process of this run executed (reach measure of the workload)."""
    import re
    try:
        with open(os.path.join(REPO, "bytecode", "src", "instruction_constants.rs")) as f:
            table = re.findall(r"^\s+([A-Z][A-Z0-9_]+)\s+(\d+)\s*$", f.read(), re.M)
    except OSError:
        return []
    seen = {int(x) for x in seen}
    return sorted(name.lower() for name, num in table if int(num) not in seen)


def write_evidence(prop, tier, seed, level, tally, wall, rule, extra=None, violations=0, exhaustive=None,
                   assumptions=None, known=None):
    cov = {
        "evaluations": tally.evaluations,
        "distinct_nontrivial": len(tally.nontrivial),
        "rule": rule,
        "samples": tally.samples or ["(no sample recorded)"],
        "distinct_world_plan_shapes": len(tally.shapes),
        "cli_processes": tally.procs,
        "intercepted_events": tally.events,
        "instructions_executed": tally.instructions,
        "forced_collections": tally.forced_gc,
        "fault_kinds_fired": dict(sorted(tally.fired.items())),
        "distinct_interleavings": len(tally.sigs),
        "distinct_interleavings_measure": "distinct normalised event-log signatures (call, target class, bucketed outcome, faulted?) per process",
        "distinct_hash_seeds": len(tally.hash_seeds),
        "opcodes_executed": len(tally.ops),
        "opcodes_never_executed": opcode_names_missing(tally.ops),
        "probes": dict(sorted(tally.probes.items())),
        "batches": dict(sorted(tally.batches.items())),
        "robustness_observations": dict(sorted(tally.observations.items())),
        "cases_per_hour": int(tally.evaluations * 3600 / wall) if wall > 0 else 0,
        "processes_per_hour": int(tally.procs * 3600 / wall) if wall > 0 else 0,
        "simulated_time": "none: the system has no timers or deadlines; logical time = global event sequence numbers (intercepted_events) and instructions_executed",
        "components": {
            "real": ["mscript CLI", "compiler", "bytecode interpreter", "bytecode_dev_transpiler", "pest", "gc", "libloading", "std", "kernel tmp directory behind the shim"],
            "simulated": ["libc open/read/write/lseek/unlink/rename/statx/readdir/dlopen/dlsym/getrandom outcomes (interposition shim, plan-driven)",
                          "clock (clock_gettime: standing by default, per-thread ticking variant) and thread ids (gettid)",
                          "collector schedule (cfg(mscript_verif) hook)",
                          "process environment: command line, environment variables, working directory (also a removed one), descriptor limit",
                          "interleaving of two mscript processes (stall rule: the second runs while the first is stopped at a planned call)"],
            "simulated_time": "the simulator owns the clock; by default it stands still, so no simulated time elapses (nothing in the claimed properties may depend on time); cases may use the ticking variant (n-th reading of a thread = n ms)",
            "stub": ["FFI probe library (C19 only)", "reference models in the driver"],
        },
    }
    if known:
        cov["known_findings_seen"] = known
    if exhaustive is not None:
        cov["exhaustive"] = exhaustive
    if extra:
        cov.update(extra)
    ev = {
        "property_id": prop, "tier": tier, "seed": seed, "level": level, "coverage": cov,
        "assumptions": assumptions or [
            "the shim sees libc calls, not raw syscalls (Rust std uses libc for all calls concerned; start-up self-test enforces interposition)",
            "sampling, not enumeration, unless coverage.exhaustive is true",
            "dev-profile build of /repo's working tree with --cfg mscript_verif"],
        "wall_s": round(wall, 2), "violations": violations,
    }
    os.makedirs(os.path.join(VERIF, "evidence"), exist_ok=True)
    with open(os.path.join(VERIF, "evidence", prop + ".json"), "w") as f:
        json.dump(ev, f, indent=1, sort_keys=True, default=str)
        f.write("\n")


# --------------------------------------------------------------------- replay

def b64(b):
    return base64.b64encode(b).decode()


def unb64(s):
    return base64.b64decode(s)


def write_replay(prop, seed, case, res):
    os.makedirs(os.path.join(VERIF, "replays"), exist_ok=True)
    name = "%s-%d-%s.json" % (prop, seed, case.get("id", "x"))
    path = os.path.join(VERIF, "replays", name)
    doc = {"property": prop, "verif_seed": seed, "case": case,
           "violation_class": res.get("class"), "message": res.get("msg"),
           "detail": res.get("detail"), "how_to_replay": "./check replay " + path}
    with open(path, "w") as f:
        json.dump(doc, f, indent=1, default=str)
        f.write("\n")
    return path


def load_known():
    p = os.path.join(VERIF, "known_findings.json")
    with open(p) as f:
        return json.load(f)


def minimise(mod, case, res, budget_s=120):
    """Greedy shrinking: keep a candidate when it fails with the same violation class."""
    t0 = time.time()
    cls = res.get("class")
    cur, cur_res = case, res
    progress = True
    while progress and time.time() - t0 < budget_s:
        progress = False
        for cand in mod.shrink(cur):
            if time.time() - t0 > budget_s:
                break
            try:
                r = run_case_in_dir(mod, cand)
            except Exception:
                continue
            if not r.get("ok") and r.get("class") == cls and "harness_error" not in r:
                cur, cur_res = cand, r
                progress = True
                break
    return cur, cur_res


def text(b):
    return b.decode("utf-8", errors="replace")
