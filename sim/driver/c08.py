"""C08 — objects have per-instance state, reference identity and bound methods."""
import core
import gens
import modelcheck
from core import Rng, derive

PROP = "C08"
LEVEL = "exploration"
BUDGET = {"quick": 170, "thorough": 1500}


def gen_cases(tier, seed):
    total = 4000 if tier == "quick" else 48000
    for i in range(total):
        rng = Rng(derive(seed, PROP, "hist", i))
        g = gens.generate(rng, family="classes")
        erng = Rng(derive(seed, PROP, "env", i))
        yield {"prop": PROP, "id": "h%d" % i, "batch": "histories", "gen": g,
               "envs": modelcheck.gen_envs(erng, 4 if tier == "quick" else 6)}


run_case = modelcheck.run_case
shrink = modelcheck.shrink


def known_finding(case, res):
    return None


RULE = ("histories (4-15 ops) over 1-3 classes with prefix/suffix-related names (K1/K1x, setn/resetn, size/resize) and optional fields "
        "(str, list, int?, Self?, earlier-class?): construct, alias by assignment / function parameter+result / list store+fetch / "
        "field store+fetch, rebind (drop a reference), field read/write/op=, methods (getter, setter, method calling methods, "
        "Self-returning, chained call, method updating another object, swap), `is` over every pair of live references; after every op "
        "every reference's fields are printed. Environments: run and compile+execute, hash seeds (function-table and registry order), "
        "GC rates 0/1%/10%/100% (drop-and-reallocate under forced collections). Oracle: reference heap model. distinct = distinct "
        "specs; non-trivial = >=4 expected output lines")
