"""C08 — objects have per-instance state, reference identity and bound methods."""
import core
import gens
import modelcheck
from core import Rng, derive

PROP = "C08"
LEVEL = "exploration"
BUDGET = {"quick": 170, "thorough": 1500}


KNOWN_SAME_NAME = "C08-same-name-classes-clobber"


def same_name_program(second_name, a, b):
    """Two classes declared in two function scopes; with second_name == "Box" they carry the same name."""
    return ("small = fn() -> int {\n\tclass Box {\n\t\tv: int\n\t\tconstructor(self) {\n\t\t\tself.v = %d\n\t\t}\n\t\tfn value(self) -> int {\n\t\t\treturn self.v\n\t\t}\n\t}\n"
            "\tb = Box()\n\treturn b.value()\n}\n"
            "big = fn() -> int {\n\tclass %s {\n\t\tv: int\n\t\tconstructor(self) {\n\t\t\tself.v = %d\n\t\t}\n\t\tfn value(self) -> int {\n\t\t\treturn self.v + 40\n\t\t}\n\t}\n"
            "\tb = %s()\n\treturn b.value()\n}\nprint small()\n" % (a, second_name, b, second_name))


def run_same_name(case):
    import os
    name = case["second"]
    world = core.fresh_world({"main.ms": same_name_program(name, case["a"], case["b"])})
    p = core.run_cmd(world, ["run", "main.ms", "-q"], plan={"seed": case["seed"], "rules": []}, gc=case.get("gc"))
    st = core.stats_of([p])
    st["shape"] = core.shape_hash("same_name", name, case["a"], case["b"])
    st["nontrivial"] = True
    st["sample"] = {"same_name_classes": name, "a": case["a"], "b": case["b"]}
    out = core.text(p["out"])
    if p["rc"] != 0 or out != "%d\n" % case["a"]:
        return {"ok": False, "class": "wrong-object", "stats": st,
                "msg": "a method called on an object of the class declared in `small` ran code of the class declared in `big`: expected %d, got %r (rc=%d)" % (case["a"], out, p["rc"]),
                "detail": {"program": same_name_program(name, case["a"], case["b"]), "stdout": out, "stderr": core.text(p["err"])[-800:]}}
    return {"ok": True, "stats": st}


def gen_cases(tier, seed):
    # known finding: two classes with one name in different function scopes (kept in its own tiny batch)
    for i in range(3):
        rng = Rng(derive(seed, PROP, "same_name", i))
        yield {"prop": PROP, "id": "s%d" % i, "batch": "same_name_classes", "second": "Box", "a": rng.range(1, 9), "b": rng.range(10, 19),
               "seed": rng.hexbytes(16), "gc": None if i == 0 else "%d:1000000" % i}
    total = 2600 if tier == "quick" else 40000
    for i in range(total):
        rng = Rng(derive(seed, PROP, "hist", i))
        g = gens.generate(rng, family="classes")
        erng = Rng(derive(seed, PROP, "env", i))
        yield {"prop": PROP, "id": "h%d" % i, "batch": "histories", "gen": g,
               "envs": modelcheck.gen_envs(erng, 4 if tier == "quick" else 6)}


def run_case(case):
    if case.get("batch") == "same_name_classes":
        return run_same_name(case)
    return modelcheck.run_case(case)


def shrink(case):
    if case.get("batch") == "same_name_classes":
        return iter(())
    return modelcheck.shrink(case)


def known_finding(case, res):
    """Same-named classes in different function scopes share their compiled labels: listed only if the same program with
    distinct class names passes."""
    if case.get("batch") == "same_name_classes" and res.get("class") == "wrong-object" and case.get("second") == "Box":
        twin = dict(case, second="Box2")
        if run_same_name(twin).get("ok"):
            return KNOWN_SAME_NAME
    return None


RULE = ("histories (4-15 ops) over 1-3 classes with prefix/suffix-related names (K1/K1x, setn/resetn, size/resize) and optional fields "
        "(str, list, int?, Self?, earlier-class?): construct, alias by assignment / function parameter+result / list store+fetch / "
        "field store+fetch, rebind (drop a reference), field read/write/op=, methods (getter, setter, method calling methods, "
        "Self-returning, chained call, method updating another object, swap), `is` over every pair of live references; after every op "
        "every reference's fields are printed. Environments: run and compile+execute, hash seeds (function-table and registry order), "
        "GC rates 0/1%/10%/100% (drop-and-reallocate under forced collections). Oracle: reference heap model. distinct = distinct "
        "specs; non-trivial = >=4 expected output lines")
