"""C17 — run-time failures are reported as MScript errors with an exact call trace.

The simulator places the failure point along a generated call history, owns both output streams
(two pipes or one, short/EINTR writes on fd 1 and fd 2) and judges on the global event order."""
import copy
import os
import re

import core
import gens
from gens import failures
from core import Rng, derive

PROP = "C17"
LEVEL = "fault_enumeration"
BUDGET = {"quick": 170, "thorough": 1500}

# block scopes (<if>, <else>, <while>, ...) and <native code>#... are not functions or methods; a label that merely starts with
# `<` because the project lives in a directory called `<drafts>` is one
PSEUDO = re.compile(r"^<[a-z ]+>(#|$)")
KNOWN_ARITH = "C17-arith-overflow-panics"


def stream_rules(rng):
    rules = []
    if rng.chance(1, 2):
        rules.append({"id": "o1", "call": "write", "pat": "<stdout>", "nth": "*", "act": "short:" + ",".join(str(rng.choice([1, 2, 5, 9])) for _ in range(3))})
    if rng.chance(1, 3):
        rules.append({"id": "o2", "call": "write", "pat": "<stdout>", "nth": "%3:1", "act": "eintr"})
    if rng.chance(1, 2):
        rules.append({"id": "e1", "call": "write", "pat": "<stderr>", "nth": "*", "act": "short:" + ",".join(str(rng.choice([1, 3, 7, 40])) for _ in range(3))})
    if rng.chance(1, 3):
        rules.append({"id": "e2", "call": "write", "pat": "<stderr>", "nth": "%2:1", "act": "eintr"})
    if rng.chance(1, 4):
        rules.append({"id": "r1", "call": "read", "pat": "*.mmm", "nth": "*", "act": "short:3,11"})
    return rules


def mk_env(rng):
    ppm = rng.choice([0, 0, 10000, 100000, 1000000])
    env = {"mode": rng.choice(["run", "ce"]), "streams": rng.choice(["pipes", "one"]), "seed": rng.hexbytes(16), "seed2": rng.hexbytes(16),
           "gc": "%d:%d" % (rng.below(1 << 30), ppm) if ppm else None, "rules": stream_rules(rng) if rng.chance(2, 3) else []}
    # where the project lives: the path ends up in every frame label (file#function)
    env["subdir"] = rng.weighted([(None, 5), ("job#42", 2), ("sp ace", 1), ("é#x", 1), ("<drafts>", 1), ("cache.mmm", 1)])
    # command-line options that must not change the verdict (`run` only)
    env["flags"] = rng.weighted([([], 12), (["--profile"], 2), (["--no-pb"], 2), (["-X", "8388608"], 2), (["--verbose"], 1)])
    if "--verbose" in env["flags"]:
        env["streams"] = "pipes"      # log records go to stdout; they are filtered out of it, which needs the streams apart
    env["vars"] = rng.weighted([({}, 6), ({"RUST_BACKTRACE": "1"}, 1), ({"RUST_BACKTRACE": "full"}, 1), ({"CLICOLOR_FORCE": "1"}, 1), ({"SIMWORLD_CLOCK": "tick"}, 1)])
    # the command is started in a directory that has been removed since; the entry file is named absolutely
    if rng.chance(1, 10):
        env["start"] = "gone"
    # the artefact of an imported module cannot be written (disk full, I/O error): the command may fail, it may not panic
    if rng.chance(1, 8):
        env["hard"] = {"id": "h", "call": "write", "pat": "*.mmm", "nth": str(rng.range(1, 3)), "act": "errno:" + rng.choice(["ENOSPC", "EIO"])}
    # what an earlier build left behind at the artefact paths
    if rng.chance(1, 3):
        env["dirty"] = {"kind": rng.choice(["longer", "shorter", "other_program", "garbage"]), "fill": rng.hexbytes(8)}
    # a project directory that has been lived in: an older revision of the failing project was really run or compiled here,
    # maybe killed, before the sources became what they are (a stream of its own)
    lv = core.Rng(core.derive(int(env["seed"][:16], 16), "lived"))
    if lv.chance(1, 8) and not env.get("hard") and env.get("start") != "gone":
        import pipeline as _pl
        env["dirty"] = _pl.gen_lived(lv)
    # crash and restart: the failing command was started once before and killed at a planned call (while writing or loading
    # bytecode, in the middle of the program's output, in the middle of the report); then it is started again.  A stream of
    # its own, so that the other choices stay what they were
    sub = core.Rng(core.derive(int(env["seed"][:16], 16), "crash"))
    if sub.chance(1, 5):
        call, pat, hi = sub.weighted([(("write", "*.mmm", 10), 3), (("read", "*.mmm", 8), 2), (("open", "*.mmm", 5), 1), (("write", "<stdout>", 6), 2),
                                      (("write", "<stderr>", 6), 2)])
        env["crash"] = {"id": "crash", "call": call, "pat": pat, "nth": str(min(sub.range(1, hi), sub.range(1, hi))), "act": sub.choice(["kill", "killafter"])}
    return env


def gen_cases(tier, seed):
    quick = tier == "quick"
    n = 0
    names = sorted(failures.FAILS)
    # 1. every failure kind x every depth 0-6 (kinds of links sampled), one environment each
    for f in names:
        for depth in range(0, 7):
            reps = 1 if quick else 4
            for r in range(reps):
                rng = Rng(derive(seed, PROP, "cat", f, depth, r))
                spec = failures.generate(rng, failure=f, depth=depth)
                batch = "known_arith_overflow" if f in failures.ARITH_OVERFLOW else "catalogue_x_depth"
                yield {"prop": PROP, "id": "k%d" % n, "batch": batch, "gen": {"family": "failures", "spec": spec}, "env": mk_env(rng)}
                n += 1
    # 2. every link kind at every position of a depth-3 chain with clean failures, both import placements
    for kind in failures.KINDS:
        for posn in range(3):
            for split in (None, 1, 2):
                for modtop in (False, True):
                    rng = Rng(derive(seed, PROP, "kinds", kind, posn, str(split), modtop))
                    links = [rng.choice(failures.KINDS) for _ in range(3)]
                    links[posn] = kind
                    spec = {"links": links, "failure": rng.choice(["assert", "index_hi", "div_zero_int", "get_nil", "remove_hi"]),
                            "pre": rng.chance(1, 2), "modtop": modtop, "split": split}
                    yield {"prop": PROP, "id": "p%d" % n, "batch": "kind_x_position", "gen": {"family": "failures", "spec": spec}, "env": mk_env(rng)}
                    n += 1
    # 3. random histories
    total = 3000 if quick else 36000
    clean = [f for f in names if f not in failures.ARITH_OVERFLOW]
    for i in range(total):
        rng = Rng(derive(seed, PROP, "rand", i))
        spec = failures.generate(rng, failure=rng.choice(clean))
        yield {"prop": PROP, "id": "r%d" % n, "batch": "random_histories", "gen": {"family": "failures", "spec": spec}, "env": mk_env(rng)}
        n += 1


def parse_trace(err):
    """Frames of the call-stack trace, innermost first."""
    frames = []
    started = False
    for line in err.split("\n"):
        s = line.strip()
        if s.startswith(">> "):
            started = True
            frames.append(s[3:].strip())
        elif started and s.startswith("^ "):
            frames.append(s[2:].strip())
        elif started and frames:
            break
    return frames


def check_stack(frames, stack):
    real = [f for f in frames if not PSEUDO.match(f)]
    # optional frames (class body function around a constructor) are matched when present
    want = []
    k = 0
    for ent in stack:
        if ent[0] == "optional":
            if k < len(real) and real[k] == "%s#%s" % (ent[1], ent[2]):
                want.append(["exact", ent[1], ent[2]])
                k += 1
            continue
        want.append(ent)
        k += 1
    stack = want
    if len(real) != len(stack):
        return "trace has %d function frames %r, the call stack at the failure has %d %r" % (len(real), real, len(stack), [s[2] for s in stack])
    fwd, back = {}, {}
    for got, (mode, f, name) in zip(real, stack):
        if "#" not in got:
            return "trace frame %r is not of the form file#function" % got
        gf, gl = got.rsplit("#", 1)
        if gf != f:
            return "trace frame %r should belong to %s (%s)" % (got, f, name)
        if mode == "exact":
            if gl != name:
                return "trace frame %r should be %s#%s" % (got, f, name)
        else:
            if gl == "__module__" or "::" in gl:
                return "trace frame %r should be the function %s of %s" % (got, name, f)
            key, lab = (f, name), (f, gl)
            if fwd.setdefault(key, lab) != lab or back.setdefault(lab, key) != key:
                return "trace labels are not one-to-one with the active functions: %r vs %r" % (real, [s[2] for s in stack])
    return None


def run_case(case):
    r = gens.render(case["gen"])
    files, expect, stack = r["files"], [e[1] for e in r["expect"]], r["stack"]
    env = case["env"]
    plan = {"seed": env["seed"], "rules": env["rules"] + ([env["hard"]] if env.get("hard") else [])}
    xenv = dict(env.get("vars") or {})
    verbose = "--verbose" in (env.get("flags") or [])
    sub = env.get("subdir")
    pre = (sub + "/") if sub else ""
    if sub:
        files = {pre + k: v for k, v in files.items()}
    world = core.fresh_world(files)
    gone = env.get("start") == "gone"
    lpre = pre
    if gone:
        pre = world + "/" + pre      # everything is named absolutely, the labels and positions carry that spelling
    stack = [[m, pre + f, n] for m, f, n in stack] if (sub or gone) else stack
    if env.get("dirty"):
        import pipeline
        pipeline.place_dirty(world, env, pipeline.module_artefacts(files, lpre + "main.ms"), sources=files, live=(world, lpre + "main.ms"))
    procs = []
    if env.get("dirty"):
        procs.extend(pipeline.take_lived())
    crash = [env["crash"]] if env.get("crash") else None
    if env["mode"] == "run":
        if crash:
            a = core.run_cmd(world, ["run", pre + "main.ms"] + ([] if verbose else ["-q"]) + list(env.get("flags") or []), plan={"seed": plan["seed"], "rules": plan["rules"] + crash},
                             gc=env["gc"], streams=env["streams"], extra_env=xenv, gone_cwd=gone)
            procs.append(a)
        p = core.run_cmd(world, ["run", pre + "main.ms"] + ([] if verbose else ["-q"]) + list(env.get("flags") or []), plan=plan, gc=env["gc"],
                         streams=env["streams"], extra_env=xenv, gone_cwd=gone)
        procs.append(p)
    else:
        c = core.run_cmd(world, ["compile", pre + "main.ms", "--verbose" if verbose else "--quick"], plan={"seed": env["seed"], "rules": []}, extra_env=xenv, gone_cwd=gone)
        procs.append(c)
        if c["rc"] != 0:
            p = c
        else:
            if crash:
                a = core.run_cmd(world, ["execute", pre + "main.mmm"], plan={"seed": env["seed2"], "rules": env["rules"] + crash}, gc=env["gc"], streams=env["streams"],
                                 extra_env=xenv, gone_cwd=gone)
                procs.append(a)
            p = core.run_cmd(world, ["execute", pre + "main.mmm"], plan={"seed": env["seed2"], "rules": env["rules"]}, gc=env["gc"], streams=env["streams"],
                             extra_env=xenv, gone_cwd=gone)
            procs.append(p)
    st = core.stats_of(procs, [env["rules"] + (crash or [])] * len(procs))
    spec = case["gen"]["spec"]
    st["hash_seeds"] = [env["seed"], env["seed2"]]
    st["shape"] = core.shape_hash(spec, env["mode"], env["streams"], [(x["pat"], x["act"].split(":")[0]) for x in env["rules"]], bool(env["gc"]),
                                  env.get("subdir"), bool(env.get("dirty")))
    st["nontrivial"] = True
    st["sample"] = {"spec": spec, "env": {k: env[k] for k in ("mode", "streams", "gc")}, "rules": [(x["pat"], x["nth"], x["act"]) for x in env["rules"]]}
    pr = {"depth_%d" % len(spec["links"]): 1, "failure_" + spec["failure"]: 1}
    if spec.get("pre") and spec["links"]:
        pr["successful_calls_before_failing_one"] = 1
    if env["streams"] == "one":
        pr["both_streams_on_one_pipe"] = 1
    if env.get("subdir"):
        pr["project_path_contains_hash_or_space"] = 1
    if env.get("dirty"):
        pr["stale_artefacts_present"] = 1
    if crash and any(q["rc"] == 137 for q in procs[:-1]):
        pr["crashed_and_restarted"] = 1
    st["probes"] = pr
    out = core.text(p["out"])
    if verbose and env["mode"] == "run":
        import modelcheck
        out = modelcheck.program_output(p, env)
        pr["verbose_logging_on"] = 1
    if xenv:
        pr["environment_variable_" + sorted(xenv)[0]] = 1
    if "--profile" in (env.get("flags") or []) and env["mode"] == "run":
        # the profile report is appended to stdout after the program ended; it is not program output
        stripped = core.strip_profile(out)
        if stripped != out:
            out = stripped
            pr["profile_report_stripped"] = 1
    err = core.text(p["err"]) if env["streams"] == "pipes" else out
    if "CLICOLOR_FORCE" in xenv:
        err = re.sub(r"\x1b\[[0-9;]*m", "", err)      # the report may be coloured; what it says is what is judged
        pr["colours_forced"] = 1
    if gone:
        pr["started_in_a_removed_directory"] = 1

    def fail(cls, msg):
        return {"ok": False, "class": cls, "msg": "%s [failure=%s links=%s env=%s/%s]" % (msg, spec["failure"], spec["links"], env["mode"], env["streams"]),
                "stats": st, "detail": {"program": files, "rc": p["rc"], "stdout": out[-2500:], "stderr": core.text(p["err"])[-2500:],
                                        "expected_stdout": expect, "expected_stack": stack}}

    if any(e["rule"] == "h" for q in procs for e in q["events"]):
        # an artefact could not be written: any clean failure is acceptable, a panic or a success is not
        pr["artefact_write_failed"] = 1
        e_all = core.text(p["err"]) + out
        if p["rc"] == 0:
            return fail("fault-ignored", "exit status 0 although an artefact could not be written and the program must fail anyway")
        if p["rc"] < 0 or p["rc"] == 101 or "panicked at" in e_all:
            return fail("panic", "internal panic (exit %d) after an artefact could not be written: %s" % (p["rc"], [l for l in e_all.split("\n") if "panicked" in l][:1]))
        return {"ok": True, "stats": st}
    if p["args"][0] == "compile" or (p["args"][0] == "run" and "Did not compile successfully" in core.text(p["err"])):
        return fail("compile-error", "the generated program was rejected by the compiler: %s" % out[-500:])
    if p["timeout"]:
        return fail("timeout", "the failing program did not terminate")
    if p["rc"] == 0:
        return fail("no-failure", "exit status 0 although the program must fail")
    if p["rc"] < 0:
        return fail("panic", "killed by signal %d instead of reporting a run-time error" % -p["rc"])
    if "panicked at" in err or p["rc"] == 101:
        return fail("panic", "internal panic (exit %d) instead of an MScript run-time error: %s" % (p["rc"], [l for l in err.split("\n") if "panicked" in l][:1]))
    # stdout prefix: exactly the lines printed before the failure
    if env["streams"] == "pipes":
        lines = out.split("\n")
        if lines and lines[-1] == "":
            lines.pop()
        if lines != expect:
            return fail("stdout-prefix", "stdout is not exactly the output printed before the failure: expected %r, got %r" % (expect[-4:], lines[-6:]))
        # order on the global event sequence: everything written to fd 1 precedes the report on fd 2
        w1 = [e["seq"] for e in p["events"] if e["call"] == "write" and e["path"] == "<stdout>" and e["res"] > 0]
        w2 = [e["seq"] for e in p["events"] if e["call"] == "write" and e["path"] == "<stderr>" and e["res"] > 0]
        if w1 and w2 and max(w1) > min(w2) and "--profile" not in (env.get("flags") or []) and not verbose:
            return fail("order", "program output was written after the error report began (event %d > %d)" % (max(w1), min(w2)))
    else:
        text = out
        head = "\n".join(expect) + "\n"
        if not text.startswith(head):
            return fail("stdout-prefix", "with both streams on one pipe the output before the failure does not come first: %r" % text[:300])
        rest = text[len(head):]
        if "unreachable" in rest or "\nin u" in rest:
            return fail("stdout-prefix", "program output appears after the report began")
    frames = parse_trace(err)
    if not frames:
        return fail("no-trace", "no call-stack trace (>> / ^ lines) in the report: %r" % err[-400:])
    d = check_stack(frames, stack)
    if d:
        return fail("wrong-trace", d)
    if spec["failure"] in ("assert", "assert_unicode") and r.get("assert_pos"):
        f, line, col = r["assert_pos"]
        f = pre + f
        if "%s:%d:%d" % (f, line, col) not in err:
            return fail("assert-position", "the report does not name the assert at %s:%d:%d: %r" % (f, line, col, [l for l in err.split("\n") if "assert" in l.lower()][:2]))
    return {"ok": True, "stats": st}


def shrink(case):
    env = case["env"]
    for j in range(len(env["rules"])):
        c = copy.deepcopy(case)
        del c["env"]["rules"][j]
        yield c
    if env["gc"]:
        c = copy.deepcopy(case)
        c["env"]["gc"] = None
        yield c
    if env["mode"] == "ce":
        c = copy.deepcopy(case)
        c["env"]["mode"] = "run"
        yield c
    if env["streams"] == "one":
        c = copy.deepcopy(case)
        c["env"]["streams"] = "pipes"
        yield c
    for key in ("subdir", "dirty", "flags", "vars", "hard", "start", "crash"):
        if env.get(key):
            c = copy.deepcopy(case)
            c["env"][key] = None
            yield c
    for g in gens.shrink(case["gen"]):
        c = copy.deepcopy(case)
        c["gen"] = g
        yield c


def known_finding(case, res):
    """Arithmetic overflow of + - * on int/bigint/byte panics (pinned by the repository's own unit test): a
    listed finding only if the same history with a clean failure kind passes."""
    spec = case["gen"]["spec"]
    if res.get("class") == "panic" and spec["failure"] in failures.ARITH_OVERFLOW:
        twin = copy.deepcopy(case)
        twin["gen"]["spec"]["failure"] = "div_zero_int"
        if run_case(twin).get("ok"):
            return KNOWN_ARITH
    return None


RULE = ("failure catalogue (assert, nil unwrap, list/string index and removal range, absent map key, zero divisors for int/bigint/float/byte, "
        "negation/shift/pow/conversion overflow, substring/insert/delete range, bad radix, + - * overflow) x call depth 0-6 through plain "
        "functions, closures, methods, constructors, map and filter callbacks, functions of an imported module and the top level of a "
        "module being imported, optionally after a successful traversal of the same chain; every link kind at every position; random "
        "histories. Environments: run / compile+execute, stdout and stderr on two pipes or one, short/EINTR writes on both, short bytecode "
        "reads, hash seeds, GC. Oracle: exit status of a reported error (not 101, not a signal), stdout = exact prefix, last write(1) "
        "before first write(2) on the global event sequence, trace = model call stack (exact labels for module/method/constructor "
        "frames, one-to-one labels for functions), assert position. distinct = distinct (spec, env shape)")
