"""C13 — lists and maps are shared by reference and their operations match their model."""
import core
import gens
import modelcheck
from core import Rng, derive

PROP = "C13"
LEVEL = "exploration"
BUDGET = {"quick": 170, "thorough": 1500}


def gen_cases(tier, seed):
    total = 4000 if tier == "quick" else 48000
    for i in range(total):
        rng = Rng(derive(seed, PROP, "hist", i))
        g = gens.generate(rng, family="containers")
        erng = Rng(derive(seed, PROP, "env", i))
        yield {"prop": PROP, "id": "h%d" % i, "batch": "histories", "gen": g,
               "envs": modelcheck.gen_envs(erng, 4 if tier == "quick" else 6)}


run_case = modelcheck.run_case
shrink = modelcheck.shrink


def known_finding(case, res):
    return None


RULE = ("operation histories (<=12 ops) over <=3+ containers and their aliases/clones: lists of int, str, int? and nested lists, maps "
        "str->int and int->str; ops = the statement's list and map operations with boundary indices (-1, 0, len-1, len, len+1), "
        "callbacks touching other lists and a captured counter, aliasing through assignment, function parameters, nesting and join; "
        "after every op every live container is printed. Each history runs under 4 (quick) / 6 (thorough) environments: "
        "run and compile+execute, distinct hash seeds (map iteration order), GC rates 0 / 1% / 10% / every instruction, "
        "occasional short/EINTR file rules. Oracle: Python sequence / finite-map model, map renderings compared as multisets. "
        "distinct = distinct history specs; non-trivial = the model expects at least 4 output lines")
