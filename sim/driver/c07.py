"""C07 — closures capture variables by reference; `modify` writes through."""
import core
import gens
import modelcheck
from core import Rng, derive

PROP = "C07"
LEVEL = "exploration"
BUDGET = {"quick": 170, "thorough": 1500}


def gen_cases(tier, seed):
    # every capture form x owner kind x decoy, enumerated (one captured variable, one use, one syntactic position)
    from gens import captureforms
    n = 0
    for form in captureforms.ALL:
        for owner in ("local", "param"):
            for decoy in (True, False):
                rng = Rng(derive(seed, PROP, "form", form, owner, decoy))
                spec = {"form": form, "p": rng.range(1, 9), "d": rng.range(0, 9), "owner": owner, "decoy": decoy}
                yield {"prop": PROP, "id": "f%d" % n, "batch": "capture_forms", "gen": {"family": "captureforms", "spec": spec, "unordered": False},
                       "envs": modelcheck.gen_envs(rng, 2)}
                n += 1
    # late shadow: the four templates x sampled constants
    for t in (1, 2, 3, 4):
        for r in range(3):
            rng = Rng(derive(seed, PROP, "lateshadow", t, r))
            spec = {"t": t, "a": rng.range(1, 9), "b": rng.range(20, 60), "c": rng.range(100, 150)}
            yield {"prop": PROP, "id": "s%d" % n, "batch": "late_shadow", "gen": {"family": "lateshadow", "spec": spec, "unordered": False},
                   "envs": modelcheck.gen_envs(rng, 2)}
            n += 1
    # owner's last word: procedure-style owners ending in an assignment, tail self-calls (eight templates x sampled constants)
    for t in gens.ownerend.KINDS:
        for r in range(3):
            rng = Rng(derive(seed, PROP, "ownerend", t, r))
            spec = {"t": t, "a": rng.range(1, 9), "b": rng.range(2, 6), "n": rng.range(2, 4)}
            yield {"prop": PROP, "id": "o%d" % n, "batch": "owner_end", "gen": {"family": "ownerend", "spec": spec, "unordered": False},
                   "envs": modelcheck.gen_envs(rng, 2)}
            n += 1
    # closures that live in an imported module (always loaded from its bytecode file): two import forms x sampled constants,
    # more environments per program than elsewhere, because here the artefact environments bear on closure semantics
    for r in range(24 if tier == "quick" else 240):
        rng = Rng(derive(seed, PROP, "libclosures", r))
        spec = gens.libclosures.generate(rng)
        spec["form"] = gens.libclosures.FORMS[r % 2]
        yield {"prop": PROP, "id": "l%d" % n, "batch": "lib_closures", "gen": {"family": "libclosures", "spec": spec, "unordered": False},
               "envs": modelcheck.gen_envs(rng, 6)}
        n += 1
    total = 4000 if tier == "quick" else 48000
    for i in range(total):
        rng = Rng(derive(seed, PROP, "hist", i))
        g = gens.generate(rng, family="closures")
        erng = Rng(derive(seed, PROP, "env", i))
        yield {"prop": PROP, "id": "h%d" % i, "batch": "histories", "gen": g,
               "envs": modelcheck.gen_envs(erng, 4 if tier == "quick" else 6)}


run_case = modelcheck.run_case
shrink = modelcheck.shrink


def known_finding(case, res):
    return None


RULE = ("random typed programs of a mini-language: 1-3 module-level variables (int/str/list/optional), 1-3 units (module-level closure, "
        "factory returning a closure or a list of two closures over shared locals, class whose method creates closures), closure bodies "
        "of nesting depth <=3 using captured variables in operand, call-argument, list/map-literal, index, receiver, if/while condition, "
        "from-loop bound and step, return, print, assert, get/or/?= positions, `modify`, plain-assignment shadowing, closures made in loops; "
        "then a module-level history of 4-12 operations (call, call through an applier, owner assignment, factory/method re-invocation, "
        "fetch from list, is_closure). Environments: run and compile+execute, hash seeds (capture-list order), GC rates 0/1%/10%/100%. "
        "Oracle: reference interpreter with explicit cells. distinct = distinct program specs; non-trivial = >=4 expected output lines")
