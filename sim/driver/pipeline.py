"""Shared machinery for C04 (run == compile+execute) and C18 (raw-text -> transpile -> execute == run):
workloads (example corpus, string enumeration, odd entry names, generated programs), environment
plans for every process of the pipeline, and the differential oracle."""
import copy
import itertools
import os
import re
import shutil

import core
from core import Rng, derive

ALPHABET = ['"', "\\", " ", "\t", "\n", "\r", "n", "r", "t", "a", "é", "\u00a0"]
ADDR = re.compile(rb"0x[0-9a-fA-F]{4,}")


def norm_out(b):
    """Output as compared between the legs: addresses, and the world directory of the leg (a program can print its own
    module path, which is absolute when the entry file was spelled as an absolute path)."""
    return ADDR.sub(b"0xADDR", norm_world(b))


def norm_world(b):
    return re.sub(re.escape(core.worker_dir().encode()) + rb"/[a-z0-9]+(?=/)", b"<world>", b)


# ------------------------------------------------------------------ workloads

def src_spelling(s, raw):
    """Source spelling of string s.  raw=True leaves TAB/LF/CR unescaped where the grammar allows."""
    out = []
    for ch in s:
        if ch == '"':
            out.append('\\"')
        elif ch == "\\":
            out.append("\\\\")
        elif ch == "\n" and not raw:
            out.append("\\n")
        elif ch == "\r" and not raw:
            out.append("\\r")
        elif ch == "\t" and not raw:
            out.append("\\t")
        else:
            out.append(ch)
    return "".join(out)


def string_program(s, raw, form):
    lit = '"' + src_spelling(s, raw) + '"'
    if form == 0:
        return 's = %s\nprint "<" + s + ">"\nprint s.len()\n' % lit
    if form == 1:
        return 'xs = [%s, "|"]\nprint xs\nm = map[str, int]\nm[%s] = 1\nprint m\n' % (lit, lit)
    # assert message / comparison position, plus a function and a closure so that call targets (file#function) are built
    return ('s = %s\nassert s == %s\nprint s + s\nf = fn(x: str) -> str {\n\treturn x + s\n}\nprint f("a")\n'
            'ys: [int...] = [1, 2]\nprint ys.map(fn(q: int) -> int {\n\treturn q + 1\n})\nprint "end"\n') % (lit, lit)


# characters outside the property's alphabet that writers and readers of the file format have been seen to treat specially:
# control characters other than TAB/LF/CR, invisible and combining characters, other blanks, and characters whose code point
# has the low byte of a format-special one (U+0109 ~ TAB, U+010A ~ LF, U+010D ~ CR, U+0122 / U+2022 ~ quote, U+015C ~ backslash)
ODD_CHARS = ["\x1b", "\x07", "\x0b", "\x0c", "\x7f", "\x01", "\u0085", "\u200b", "\u200d", "\u00ad", "e\u0301", "\u2764\ufe0f", "\u3000", "\u2028",
             "\u0109", "\u010a", "\u010d", "\u0122", "\u2022", "\u015c", "\u4e0a", "\U0001f600", "\ufffd", "\u00ff", "\u0100"]


def odd_strings():
    for ch in ODD_CHARS:
        yield ch
        yield "a" + ch + "b c"
    yield "".join(ODD_CHARS[:6])
    yield "".join(ODD_CHARS[14:21])


def all_strings(maxlen):
    for n in range(0, maxlen + 1):
        for t in itertools.product(ALPHABET, repeat=n):
            yield "".join(t)


_corpus_cache = {}


def corpus_entries():
    """Every .ms file of /repo/examples as a candidate entry point: (example dir, entry relative path)."""
    root = os.path.join(core.REPO, "examples")
    out = []
    for top in sorted(os.listdir(root)):
        d = os.path.join(root, top)
        if not os.path.isdir(d):
            continue
        for dirpath, dirnames, filenames in os.walk(d):
            dirnames.sort()
            for fn in sorted(filenames):
                if fn.endswith(".ms"):
                    out.append((top, os.path.relpath(os.path.join(dirpath, fn), d)))
    return out


def load_example(top):
    """Files of one example directory as {relative path: bytes} (sources only, no stale artefacts)."""
    if top in _corpus_cache:
        return _corpus_cache[top]
    d = os.path.join(core.REPO, "examples", top)
    files = {}
    for dirpath, dirnames, filenames in os.walk(d):
        for fn in filenames:
            if fn.endswith(".mmm"):
                continue
            p = os.path.join(dirpath, fn)
            if os.path.getsize(p) < 200000:
                with open(p, "rb") as f:
                    files[os.path.relpath(p, d)] = f.read()
    _corpus_cache[top] = files
    return files


_tests_cache = []


def test_programs():
    """Programs embedded in the repository's own test-suite (compiler/src/tests/*.rs): single-file `eval(r#"..."#)`
    programs and multi-file EvalEnvironment projects.  -> list of (name, {path: source}, entry)"""
    import re
    if _tests_cache:
        return _tests_cache
    d = os.path.join(core.REPO, "compiler", "src", "tests")
    out = []
    for fn in sorted(os.listdir(d)):
        if not fn.endswith(".rs"):
            continue
        with open(os.path.join(d, fn), encoding="utf-8", errors="replace") as f:
            text = f.read()
        for k, block in enumerate(text.split("#[test]")[1:]):
            m = re.search(r"fn\s+(\w+)", block)
            name = "%s::%s" % (fn[:-3], m.group(1) if m else k)
            ev = re.search(r'eval\(\s*r#"(.*?)"#', block, re.S)
            if ev:
                out.append((name, {"main.ms": ev.group(1)}, "main.ms"))
                continue
            ent = re.search(r'entrypoint\(\s*"([^"]+)",\s*r#"(.*?)"#', block, re.S)
            if ent:
                files = {ent.group(1): ent.group(2)}
                for a in re.finditer(r'\.add\(\s*"([^"]+)",\s*r#"(.*?)"#', block, re.S):
                    files[a.group(1)] = a.group(2)
                out.append((name, files, ent.group(1)))
    _tests_cache.extend(out)
    return out


SLOW_OR_UNSTABLE = {("count", "million.ms"), ("recursion", "main.ms"), ("math", "primes.ms"), ("math", "counter.ms")}


def canon(b):
    """Order-insensitive rendering of output that depends on the hash seed (raw map prints, iteration over
    pairs()): the multiset of lines, each line as the multiset of its characters."""
    return sorted(bytes(sorted(line)) for line in b.split(b"\n"))


# ---------------------------------------------------------------------- plans

def rw_rules(rng, tag, hard=False, last=False):
    """Benign rules for one process: short/EINTR on source reads, bytecode reads/writes, stdout."""
    rules = []

    def shorts():
        return "short:" + ",".join(str(rng.choice([1, 2, 3, 5, 7, 13, 64, 1000])) for _ in range(rng.range(2, 6)))
    if rng.chance(2, 3):
        rules.append({"id": tag + "rs", "call": "read", "pat": "*.ms", "nth": "*", "act": shorts()})
    if rng.chance(1, 2):
        rules.append({"id": tag + "re", "call": "read", "pat": "*.ms", "nth": "%%%d:1" % rng.range(2, 5), "act": "eintr"})
    if rng.chance(2, 3):
        rules.append({"id": tag + "ms", "call": "read", "pat": "*.mmm", "nth": "*", "act": shorts()})
    if rng.chance(1, 2):
        rules.append({"id": tag + "me", "call": "read", "pat": "*.mmm", "nth": "%%%d:1" % rng.range(2, 5), "act": "eintr"})
    if rng.chance(2, 3):
        rules.append({"id": tag + "ws", "call": "write", "pat": "*.mmm", "nth": "*", "act": shorts()})
    if rng.chance(1, 2):
        rules.append({"id": tag + "we", "call": "write", "pat": "*.mmm", "nth": "%%%d:1" % rng.range(2, 5), "act": "eintr"})
    if rng.chance(1, 3):
        rules.append({"id": tag + "oe", "call": "open", "pat": "*.m*", "nth": "%%%d:1" % rng.range(2, 4), "act": "eintr"})
    if rng.chance(1, 3):
        rules.append({"id": tag + "os", "call": "write", "pat": "<stdout>", "nth": "*", "act": shorts()})
    if rng.chance(1, 5):
        # a file whose reported size is 0 although it delivers data (as procfs files, pipes and some network file systems do)
        rules.append({"id": tag + "sz", "call": "stat", "pat": rng.choice(["*.mmm", "*.ms", "*"]), "nth": "*", "act": "size:0"})
    if last and rng.chance(1, 3):
        # a bytecode file that cannot be seeked in (a pipe where a file is expected): reading it front to back still works
        # (only for the process that executes the binary form: the transpiler does seek in its text input)
        rules.append({"id": tag + "sk", "call": "seek", "pat": "*.mmm", "nth": "*", "act": "errno:ESPIPE"})
    if rng.chance(1, 5):
        # every directory is a file system of its own: a rename across directories fails with EXDEV
        rules.append({"id": tag + "xd", "call": "rename", "pat": "*", "nth": "*", "act": "xdev"})
    if hard:
        call, pat = rng.choice([("read", "*.ms"), ("read", "*.mmm"), ("write", "*.mmm"), ("open", "*.mmm"), ("open", "*.ms")])
        rules.insert(0, {"id": "h", "call": call, "pat": pat, "nth": str(rng.range(1, 6)),
                         "act": "errno:" + rng.choice(["EIO", "ENOSPC", "EACCES", "EMFILE"])})
    return rules


def gen_env(rng, batch, nprocs, same_seed=False):
    """Environment for all processes of a case: per-process hash seed, rules, GC spec; dirty directory."""
    seeds = [rng.hexbytes(16) for _ in range(nprocs)]
    if same_seed:
        seeds = [seeds[0]] * nprocs
    env = {"plans": [], "gc": [], "dirty": None, "torn": None}
    for i in range(nprocs):
        rules = []
        if batch in ("benign", "hard"):
            rules = rw_rules(rng, "p%d" % i, hard=(batch == "hard" and i == rng.below(nprocs)), last=(i == nprocs - 1))
        env["plans"].append({"seed": seeds[i], "rules": rules})
        ppm = rng.weighted([(0, 4), (10000, 2), (100000, 2), (1000000, 1)]) if batch != "fault_free" else rng.choice([0, 0, 1000000])
        env["gc"].append("%d:%d" % (rng.below(1 << 30), ppm) if ppm else None)
    if batch in ("benign", "hard"):
        if rng.chance(1, 2):
            env["dirty"] = {"kind": rng.choice(["longer", "shorter", "other_program", "garbage"]), "fill": rng.hexbytes(8)}
        if rng.chance(1, 3):
            env["torn"] = {"kth_write": rng.range(1, 4)}
    # how the user spells the entry file on the command line (the same spelling in every process of the case)
    env["spell"] = rng.weighted([("", 6), ("./", 2), (".//", 1), ("././", 1), ("abs", 1), ("absgone", 1)])
    # environment variables that must not matter
    env["vars"] = rng.weighted([({}, 8), ({"CLICOLOR_FORCE": "1"}, 1), ({"SIMWORLD_CLOCK": "tick"}, 1)])
    if batch in ("benign", "hard") and rng.chance(1, 6):
        # the artefacts are read-only by the time they are executed (the last process only reads)
        env["plans"][-1]["rules"].append({"id": "ro", "call": "open", "pat": "*.mmm", "nth": "*", "act": "rdonly"})
    # options of `run` that must not change what the program does or how it ends
    env["run_flags"] = rng.weighted([([], 8), (["--profile"], 1), (["--no-pb"], 1)])
    if batch in ("benign", "hard"):
        # crash and restart: one command of the case was started once before and killed at a planned call; what it left on disk
        # survives and the command is started again.  Drawn from a stream of its own (a function of the first hash seed) so that
        # every other choice of this generator is what it was before crashes existed
        sub = core.Rng(core.derive(int(seeds[0][:16], 16), "crash"))
        if sub.chance(1, 3):
            stage = sub.weighted([("run", 3), ("compile", 3), ("execute", 2), ("transpile", 3)])
            call, pat, hi = {"run": sub.weighted([(("write", "*.mmm", 14), 4), (("open", "*.mmm", 6), 2), (("read", "*.mmm", 8), 2), (("write", "<stdout>", 4), 1)]),
                             "compile": sub.weighted([(("write", "*.mmm", 14), 4), (("open", "*.mmm", 6), 2), (("read", "*.ms", 4), 1)]),
                             "execute": sub.weighted([(("read", "*.mmm", 8), 3), (("open", "*.mmm", 4), 1), (("write", "<stdout>", 4), 1)]),
                             "transpile": sub.weighted([(("write", "*.mmm", 14), 4), (("read", "*.mmm", 8), 2), (("open", "*.mmm", 3), 2)])}[stage]
            k = min(sub.range(1, hi), sub.range(1, hi))
            rules = [{"id": "crash", "call": call, "pat": pat, "nth": str(k), "act": sub.choice(["kill", "killafter"])}]
            if call == "write" and pat == "*.mmm" and sub.chance(1, 2):
                rules = [{"id": "crasht", "call": "write", "pat": "*.mmm", "nth": str(k), "act": "short:%d" % sub.range(1, 7)},
                         {"id": "crash", "call": "write", "pat": "*.mmm", "nth": str(k + 1), "act": "kill"}]
            env["crash"] = {"stage": stage, "rules": rules}
    return env


AUX = []


def take_aux():
    """The processes that were killed on purpose by the legs since the last call (crash-and-restart environments)."""
    got = list(AUX)
    del AUX[:]
    return got


def crash_first(env, stage, cwd, args, plan, **kw):
    """If the environment says so, start this command once, kill it at the planned call, and leave what it wrote behind."""
    crash = env.get("crash")
    if not crash or crash["stage"] != stage:
        return
    a = core.run_cmd(cwd, args, plan={"seed": plan["seed"], "rules": plan["rules"] + crash["rules"]}, **kw)
    a["aux"] = True
    a["crashed"] = a["rc"] == 137
    AUX.append(a)


def spelled(env, cwd, ent):
    sp = env.get("spell") or ""
    if sp in ("abs", "absgone"):
        return os.path.join(cwd, ent)
    return sp + ent


OTHER_PROGRAM = ('f other\x00\x07 "stale artefact of another program"\x00\x12 "*"\x00\x0f\x00\x11\x00e\x00'
                 'f __module__\x00\x07 "STALE"\x00\x12 "*"\x00\x0f\x00\x39\x00e\x00').encode("latin-1")


def dirty_bytes(kind, fill, approx):
    if kind == "other_program":
        return OTHER_PROGRAM
    if kind == "longer":
        return OTHER_PROGRAM + (b"\x07 \"pad " + fill.encode() + b"\"\x00") * (approx // 16 + 4)
    if kind == "shorter":
        return OTHER_PROGRAM[:7]
    return bytes.fromhex(fill) * 5


LIVED = []      # the processes run by `lived_in` preludes since the last take_lived()


def take_lived():
    got = list(LIVED)
    del LIVED[:]
    return got


def gen_lived(rng):
    """A project directory that has been lived in: an earlier revision of the same project was really run or compiled here
    (maybe killed at its k-th call on any file, or at a rename), then the sources were replaced by the current ones."""
    d = {"kind": "lived_in", "cmd": rng.choice(["run", "compile", "compile"]), "fill": "00",
         "times": rng.choice(["as_written", "old_sources", "all_equal", "future_artefacts"]), "kill": None}
    if rng.chance(1, 2):
        call, hi = rng.weighted([(("write", 24), 4), (("open", 14), 3), (("rename", 4), 1), (("read", 10), 1)])
        d["kill"] = {"id": "lived", "call": call, "pat": "*", "nth": str(min(rng.range(1, hi), rng.range(1, hi))), "act": rng.choice(["kill", "killafter"])}
    return d


def place_dirty(world, env, artefacts, sources=None, entry=None, live=None):
    """Pre-existing artefacts: what an earlier, unrelated compile left behind."""
    if not env.get("dirty"):
        return
    if env["dirty"]["kind"] == "lived_in":
        if not sources or not live:
            return
        cwd, spelled_entry = live
        old = {k: re.sub(r"(?<![\w.#\"])(\d+)(?![\w.\"])", lambda m: str(int(m.group(1)) + 1), v) if k.endswith(".ms") and isinstance(v, str) else v for k, v in sources.items()}
        for rel, content in old.items():
            with open(os.path.join(world, rel), "wb") as f:
                f.write(content.encode() if isinstance(content, str) else content)
        d = env["dirty"]
        args = ["run", spelled_entry, "-q"] if d["cmd"] == "run" else ["compile", spelled_entry, "--quick"]
        a = core.run_cmd(cwd, args, plan={"seed": "00" * 16, "rules": [d["kill"]] if d.get("kill") else []}, timeout=10)
        a["aux"] = True
        a["lived"] = True
        LIVED.append(a)
        for rel, content in sources.items():
            with open(os.path.join(world, rel), "wb") as f:
                f.write(content.encode() if isinstance(content, str) else content)
        # the file times of the project are the simulator's: sources a year older than everything else, every file the same
        # instant, or artefacts from the future
        t0 = 1600000000
        for dirpath, _dirs, names in os.walk(world):
            for nm in names:
                q = os.path.join(dirpath, nm)
                if os.path.islink(q):
                    continue
                if d["times"] == "all_equal":
                    os.utime(q, (t0, t0))
                elif d["times"] == "old_sources" and nm.endswith(".ms"):
                    os.utime(q, (t0 - 400 * 86400, t0 - 400 * 86400))
                elif d["times"] == "future_artefacts" and not nm.endswith(".ms"):
                    os.utime(q, (t0 + 20 * 365 * 86400, t0 + 20 * 365 * 86400))
        return
    if env["dirty"]["kind"] == "older_revision":
        # the artefacts of an earlier revision of the same project: every integer literal was one higher then
        if not sources or not entry:
            return
        old = {k: re.sub(r"(?<![\w.#\"])(\d+)(?![\w.\"])", lambda m: str(int(m.group(1)) + 1), v) if k.endswith(".ms") else v for k, v in sources.items()}
        tmp = core.fresh_world(old, sub="rev")
        c = core.run_cmd(os.path.join(tmp, os.path.dirname(entry)), ["compile", os.path.basename(entry), "--quick"], plan={"seed": "00" * 16, "rules": []})
        if c["rc"] != 0:
            return
        for rel in artefacts:
            src = os.path.join(tmp, rel)
            if os.path.exists(src):
                os.makedirs(os.path.dirname(os.path.join(world, rel)), exist_ok=True)
                shutil.copyfile(src, os.path.join(world, rel))
        return
    for rel in artefacts:
        p = os.path.join(world, rel)
        os.makedirs(os.path.dirname(p), exist_ok=True)
        with open(p, "wb") as f:
            f.write(dirty_bytes(env["dirty"]["kind"], env["dirty"]["fill"], 400))


def module_artefacts(files, entry):
    return [f[:-3] + ".mmm" for f in files if f.endswith(".ms")]


# -------------------------------------------------------------------- the legs

def inv(env):
    """Keyword arguments every process of a case is started with."""
    return {"extra_env": dict(env.get("vars") or {}), "gone_cwd": env.get("spell") == "absgone"}


def leg_run(files, entry, env, idx, dump=False):
    world = core.fresh_world(files, sub="run")
    place_dirty(world, env, module_artefacts(files, entry))
    cwd, ent = os.path.join(world, os.path.dirname(entry)), os.path.basename(entry)
    ent = spelled(env, cwd, ent)
    flags = list(env.get("run_flags") or [])
    crash_first(env, "run", cwd, ["run", ent, "-q"] + flags, env["plans"][idx], gc=env["gc"][idx], **inv(env))
    p = core.run_cmd(cwd, ["run", ent, "-q"] + flags, plan=env["plans"][idx], gc=env["gc"][idx], dump=dump, **inv(env))
    if "--profile" in flags:
        # the profile report follows the program's output after one empty line; it is not program output
        p["out"] = core.strip_profile(p["out"])
    return [p]


def leg_compile_execute(files, entry, env, idx, dump=False):
    world = core.fresh_world(files, sub="ce")
    place_dirty(world, env, module_artefacts(files, entry))
    cwd, ent = os.path.join(world, os.path.dirname(entry)), os.path.basename(entry)
    ent = spelled(env, cwd, ent)
    procs = []
    if env.get("torn"):
        # an earlier compile of the same project really killed at its k-th bytecode write
        tplan = {"seed": env["plans"][idx]["seed"],
                 "rules": [{"id": "torn", "call": "write", "pat": "*.mmm", "nth": str(env["torn"]["kth_write"]), "act": "short:3"},
                           {"id": "tornk", "call": "write", "pat": "*.mmm", "nth": str(env["torn"]["kth_write"] + 1), "act": "kill"}]}
        t = core.run_cmd(cwd, ["compile", ent, "--quick"], plan=tplan, **inv(env))
        t["aux"] = True
        procs.append(t)
    crash_first(env, "compile", cwd, ["compile", ent, "--quick"], env["plans"][idx], **inv(env))
    c = core.run_cmd(cwd, ["compile", ent, "--quick"], plan=env["plans"][idx], **inv(env))
    procs.append(c)
    if c["rc"] == 0:
        crash_first(env, "execute", cwd, ["execute", ent[:-3] + ".mmm"], env["plans"][idx + 1], gc=env["gc"][idx + 1], **inv(env))
        e = core.run_cmd(cwd, ["execute", ent[:-3] + ".mmm"], plan=env["plans"][idx + 1], gc=env["gc"][idx + 1], dump=dump, **inv(env))
        procs.append(e)
    return procs


def leg_transpile_execute(files, entry, env, idx, dump=False, shortcut=False):
    world = core.fresh_world(files, sub="tx")
    cwd, ent = os.path.join(world, os.path.dirname(entry)), os.path.basename(entry)
    stem = ent[:-3]
    sstem = spelled(env, cwd, ent)[:-3]
    if env.get("dirty"):
        for rel in (stem + ".mmm", stem + ".transpiled.mmm"):
            with open(os.path.join(cwd, rel), "wb") as f:
                f.write(dirty_bytes(env["dirty"]["kind"], env["dirty"]["fill"], 400))
    procs = []
    crash_first(env, "compile", cwd, ["compile", sstem + ".ms", "--output-format", "raw-text", "--quick"], env["plans"][idx], **inv(env))
    c = core.run_cmd(cwd, ["compile", sstem + ".ms", "--output-format", "raw-text", "--quick"], plan=env["plans"][idx], **inv(env))
    procs.append(c)
    if c["rc"] != 0:
        return procs, None
    os.replace(os.path.join(cwd, stem + ".mmm"), os.path.join(cwd, stem + ".transpiled.mmm"))
    with open(os.path.join(cwd, stem + ".transpiled.mmm"), "rb") as f:
        text_form = f.read()
    if env.get("dirty"):
        # the output of the transpiler may already exist (and be longer than what will be written)
        with open(os.path.join(cwd, stem + ".mmm"), "wb") as f:
            f.write(dirty_bytes(env["dirty"]["kind"], env["dirty"]["fill"], len(text_form)))
    if shortcut:
        e = core.run_cmd(cwd, ["execute", sstem + ".transpiled.mmm", "--transpile"], plan=env["plans"][idx + 1],
                         gc=env["gc"][idx + 1], dump=dump, **inv(env))
        procs.append(e)
        return procs, text_form
    crash_first(env, "transpile", cwd, ["transpile", sstem + ".transpiled.mmm"], env["plans"][idx + 1], **inv(env))
    t = core.run_cmd(cwd, ["transpile", sstem + ".transpiled.mmm"], plan=env["plans"][idx + 1], **inv(env))
    procs.append(t)
    if t["rc"] == 0:
        crash_first(env, "execute", cwd, ["execute", sstem + ".mmm"], env["plans"][idx + 2], gc=env["gc"][idx + 2], **inv(env))
        e = core.run_cmd(cwd, ["execute", sstem + ".mmm"], plan=env["plans"][idx + 2], gc=env["gc"][idx + 2], dump=dump, **inv(env))
        procs.append(e)
    return procs, text_form


def hard_fired(procs):
    return any(e["rule"] == "h" for p in procs for e in p["events"])


def exit_class(rc):
    return "ok" if rc == 0 else "fail"


def case_files(case):
    """Materialise the source files of a case: (files, entry)."""
    k = case["kind"]
    if k == "corpus":
        return dict(load_example(case["example"])), case["entry"]
    if k == "string":
        return {case.get("entry", "s.ms"): string_program(case["s"], case["raw"], case["form"])}, case.get("entry", "s.ms")
    if k == "files":
        return dict(case["files"]), case["entry"]
    if k == "testsrc":
        for name, files, entry in test_programs():
            if name == case["name"]:
                return dict(files), entry
        raise core.HarnessError("test program %r not found" % case["name"])
    if k == "gen":
        import gens
        files, entry = gens.materialise(case["gen"])
        return files, entry
    raise core.HarnessError("unknown case kind %r" % k)


def shrink_env(case):
    env = case["env"]
    for i, plan in enumerate(env["plans"]):
        for j in range(len(plan["rules"])):
            c = copy.deepcopy(case)
            del c["env"]["plans"][i]["rules"][j]
            yield c
    for i, g in enumerate(env["gc"]):
        if g:
            c = copy.deepcopy(case)
            c["env"]["gc"][i] = None
            yield c
    if env.get("spell"):
        c = copy.deepcopy(case)
        c["env"]["spell"] = ""
        yield c
    if env.get("run_flags"):
        c = copy.deepcopy(case)
        c["env"]["run_flags"] = []
        yield c
    if env.get("vars"):
        c = copy.deepcopy(case)
        c["env"]["vars"] = {}
        yield c
    for key in ("dirty", "torn", "crash"):
        if env.get(key):
            c = copy.deepcopy(case)
            c["env"][key] = None
            yield c


def shrink_program(case):
    if case["kind"] == "string" and len(case["s"]) > 0:
        for i in range(len(case["s"])):
            c = copy.deepcopy(case)
            c["s"] = case["s"][:i] + case["s"][i + 1:]
            yield c
        if case["form"] != 0:
            c = copy.deepcopy(case)
            c["form"] = 0
            yield c
    if case["kind"] == "gen":
        import gens
        for g in gens.shrink(case["gen"]):
            c = copy.deepcopy(case)
            c["gen"] = g
            yield c
    if case["kind"] == "files":
        files = case["files"]
        for name in sorted(files):
            lines = files[name].split("\n")
            if len(lines) > 1:
                for i in range(len(lines)):
                    c = copy.deepcopy(case)
                    c["files"][name] = "\n".join(lines[:i] + lines[i + 1:])
                    yield c
