"""Capture forms (C07): one closure, one captured variable, ONE use of it in one syntactic position.  The closure is made by a
factory (so the owner frame is gone when it runs) and is called while the caller owns a same-named variable with another value.
A capture list that misses the variable for this position, or a lookup that prefers the caller's variable, shows at once."""
from .base import Emitter

# form -> (body lines using the captured int `x` exactly once; `d` is the parameter; result in `acc`), python model (x, d) -> (out lines, acc)
FORMS = {
    "operand_left": (["acc = x + d"], lambda x, d: ([], x + d)),
    "operand_right": (["acc = d * x"], lambda x, d: ([], d * x)),
    "compare": (["acc = 0", "if d < x {", "\tacc = 1", "}"], lambda x, d: ([], 1 if d < x else 0)),
    "call_arg": (["acc = idf(x)"], lambda x, d: ([], x + 1)),
    "method_arg": (["tl: [int...] = [d]", "tl.push(x)", "acc = tl[1]"], lambda x, d: ([], x)),
    "list_literal": (["tl: [int...] = [d, x]", "acc = tl[1]"], lambda x, d: ([], x)),
    "map_literal": (['tm = map[str, int] {"k": x}', 'acc = (tm["k"]) or 0'], lambda x, d: ([], x)),
    # the captured variable is the KEY of a map literal and appears nowhere else in the closure
    "map_literal_key": (['tm = map[int, int] {x: 1}', 'tk = tm.keys()', 'acc = tm.len() * 100 + tk[0]'], lambda x, d: ([], 100 + x)),
    "map_literal_key_only": (['tm = map[int, str] {x: "s"}', 'tk = tm.keys()', 'acc = tk[0]'], lambda x, d: ([], x)),
    # ("map_key": `tm[x] = d` with a captured key is rejected by the compiler's type check — observed, outside this property)
    "index": (["acc = tbl[x % 3]"], lambda x, d: ([], [5, 6, 7][x % 3])),
    # a counting loop whose binding has the captured variable's name: after the loop the name denotes the captured variable again
    "loop_binding_same_name": (["acc = 0", "from 0 to 3, x {", "\tacc = acc + x", "}", "acc = acc * 100 + x"], lambda x, d: ([], 300 + x)),
    "index_write_value": (["tl: [int...] = [d]", "tl[0] = x", "acc = tl[0]"], lambda x, d: ([], x)),
    "if_cond": (["acc = 0", "if x > 4 {", "\tacc = 1", "} else {", "\tacc = 2", "}"], lambda x, d: ([], 1 if x > 4 else 2)),
    "else_if_cond": (["acc = 0", "if d > 90 {", "\tacc = 1", "} else if x > 4 {", "\tacc = 2", "} else {", "\tacc = 3", "}"],
                     lambda x, d: ([], 1 if d > 90 else (2 if x > 4 else 3))),
    "while_cond": (["acc = 0", "while acc < x {", "\tacc = acc + 1", "}"], lambda x, d: ([], max(x, 0))),
    "from_lo": (["acc = 0", "from x to 12 {", "\tacc += 1", "}"], lambda x, d: ([], max(0, 12 - x))),
    "from_hi": (["acc = 0", "from 0 to x {", "\tacc += 1", "}"], lambda x, d: ([], max(0, x))),
    "from_step": (["acc = 0", "from 0 to 12 step x {", "\tacc += 1", "}"], lambda x, d: ([], len(range(0, 12, x)))),
    "return_only": ([], None),      # handled specially: `return x`
    "print_only": (["print x", "acc = d"], lambda x, d: ([str(x)], d)),
    "assert_only": (["assert x == x", "acc = d"], lambda x, d: ([], d)),
    "modify_rhs": (["modify y = x", "acc = y"], lambda x, d: ([], x)),
    "opassign_rhs": (["acc = d", "acc += x"], lambda x, d: ([], d + x)),
    "or_fallback": (["on: int? = nil", "acc = on or x"], lambda x, d: ([], x)),
    "unwrap_into_rhs": (["on: int? = nil", "on ?= x", "acc = get on"], lambda x, d: ([], x)),
    "unary_minus": (["acc = -x"], lambda x, d: ([], -x)),
    # the closure only WRITES the variable (setter / reset closures)
    "modify_target": (["modify x = d", "acc = d"], lambda x, d: ([], d)),
    "modify_target_typed": (["modify x: int = d", "acc = d"], lambda x, d: ([], d)),
    "str_concat": (['print "v" + x', "acc = d"], lambda x, d: (["v%d" % x], d)),
    "nested_depth2": (["n2 = fn(e: int) -> int {", "\treturn e + x", "}", "acc = n2(d)"], lambda x, d: ([], d + x)),
    "nested_depth3": (["n2 = fn(e: int) -> int {", "\tn3 = fn(g: int) -> int {", "\t\treturn g * x", "\t}", "\treturn n3(e)", "}", "acc = n2(d)"],
                      lambda x, d: ([], d * x)),
    "ctor_arg": (["tk = KC(x)", "acc = tk.v"], lambda x, d: ([], x)),
    "method_call_arg": (["tk = KC(d)", "acc = tk.plus(x)"], lambda x, d: ([], d + x)),
    "closure_call_arg": (["acc = idc(x)"], lambda x, d: ([], x + 2)),
    "shift": (["acc = x << 1"], lambda x, d: ([], x << 1)),
    "to_str": (["print x.to_str()", "acc = d"], lambda x, d: ([str(x)], d)),
}
OPT_FORMS = {
    "or_primary": (["acc = xo or d"], lambda x, d: ([], x)),
    "get_operand": (["acc = get xo"], lambda x, d: ([], x)),
    "nil_compare": (["acc = 0", "if xo == nil {", "\tacc = 1", "}"], lambda x, d: ([], 0)),
}
BOOL_FORMS = {
    "not_operand": (["acc = 0", "if !xb {", "\tacc = 1", "}"], lambda x, d: ([], 0 if x else 1)),
    "and_operand": (["acc = 0", "if d > 0 && xb {", "\tacc = 1", "}"], lambda x, d: ([], 1 if (d > 0 and x) else 0)),
}
LIST_FORMS = {
    "receiver": (["acc = xl.len()"], lambda x, d: ([], len(x))),
    "push_into": (["xl.push(d)", "acc = d"], lambda x, d: ([], d)),
    "index_of": (["acc = (xl.index_of(d)) or 9"], lambda x, d: ([], x.index(d) if d in x else 9)),
}
LIST_FORMS["modify_target_typed"] = (["modify xl: [int...] = [d]", "acc = d"], lambda x, d: ([], d))
LIST_FORMS["assign_target"] = (["xl[0] = d", "acc = d"], lambda x, d: ([], d))
LIST_FORMS["opassign_target"] = (["xl[1] += d", "acc = d"], lambda x, d: ([], d))
MAP_FORMS = {
    "map_assign_target": (['xm["k"] = d', "acc = d"], lambda x, d: ([], d)),
    "map_read": (['acc = (xm["a"]) or 0'], lambda x, d: ([], x)),
    "map_receiver": (["acc = xm.len()"], lambda x, d: ([], 1)),
}
OBJ_FORMS = {
    "field_assign_target": (["xk.v = d", "acc = d"], lambda x, d: ([], d)),
    "field_read": (["acc = xk.v"], lambda x, d: ([], x)),
    "method_receiver": (["acc = xk.plus(d)"], lambda x, d: ([], x + d)),
}
ALL = sorted(list(FORMS) + list(OPT_FORMS) + list(BOOL_FORMS) + list(LIST_FORMS) + list(MAP_FORMS) + list(OBJ_FORMS))


def generate(rng):
    return {"form": rng.choice(ALL), "p": rng.range(1, 9), "d": rng.range(0, 9), "owner": rng.choice(["local", "param"]),
            "decoy": rng.chance(2, 3)}


def render(spec):
    form, p, d = spec["form"], spec["p"], spec["d"]
    em = Emitter()
    em.code("tbl: [int...] = [5, 6, 7]")
    em.code("idf = fn(a: int) -> int {\n\treturn a + 1\n}")
    em.code("two = 2\nidc = fn(a: int) -> int {\n\treturn a + two\n}")
    em.code("class KC {\n\tv: int\n\tconstructor(self, v: int) {\n\t\tself.v = v\n\t}\n\tfn plus(self, q: int) -> int {\n\t\treturn self.v + q\n\t}\n}")
    # the captured variable lives in the factory's frame (a local or the parameter itself)
    if form in OPT_FORMS:
        name, decl, val, table = "xo", "xo: int? = p + 1", p + 1, OPT_FORMS
        decoy = "xo: int? = 777"
    elif form in BOOL_FORMS:
        name, decl, val, table = "xb", "xb = p > 4", p > 4, BOOL_FORMS
        decoy = "xb = %s" % ("false" if p > 4 else "true")
    elif form in LIST_FORMS:
        name, decl, val, table = "xl", "xl: [int...] = [p, 3]", [p, 3], LIST_FORMS
        decoy = "xl: [int...] = [7, 7, 7, 7, 7]"
    elif form in MAP_FORMS:
        name, decl, val, table = "xm", 'xm = map[str, int] {"a": p}', p, MAP_FORMS
        decoy = 'xm = map[str, int] {"a": 777, "b": 1, "c": 2}'
    elif form in OBJ_FORMS:
        name, decl, val, table = "xk", "xk = KC(p)", p, OBJ_FORMS
        decoy = "xk = KC(777)"
    else:
        name, table = "x", FORMS
        if spec.get("owner") == "param":
            decl, val = None, p
        else:
            decl, val = "x = p + 1", p + 1
        decoy = "x = 777"
    param = "x" if (name == "x" and decl is None) else "p"
    em.code("mk = fn(%s: int) -> fn(int) -> int {" % param)
    em.indent += 1
    if decl:
        em.code(decl)
    em.code("y = 0")
    em.code("h = fn(d: int) -> int {")
    em.indent += 1
    if form == "return_only":
        em.code("return x")
        outs, acc = [], val
    else:
        body, model = table[form]
        for b in body:
            em.code(b)
        em.code("return acc")
        outs, acc = model(list(val) if isinstance(val, list) else val, d)
    em.indent -= 1
    em.code("}")
    em.code("return h")
    em.indent -= 1
    em.code("}")
    em.code("hh = mk(%d)" % p)
    if spec.get("decoy"):
        # the caller owns a variable of the same name with another value
        em.code(decoy)
    em.code("print hh(%d)" % d)
    em.code("print hh.is_closure()")
    expect = [("exact", o) for o in outs] + [("exact", str(acc)), ("exact", "true")]
    return em.program(), expect, None, False


def shrink(spec):
    if spec.get("decoy"):
        c = dict(spec)
        c["decoy"] = False
        yield c
