"""Failing programs (C17): a call chain of depth 0-6 whose links are plain functions, closures, methods,
constructors, map/filter callbacks, functions of an imported module and the top-level code of a module
being imported; every link prints a unique line before calling on; the innermost point performs one
failure of the catalogue.  The model yields the exact stdout prefix and the exact call stack."""
from .base import Emitter

MULTI_MODULE = True

# failure name -> statements executed with a == 1 (a is the int parameter of the innermost link)
FAILS = {
    "assert": ["assert a == 0"],
    "assert_unicode": ['if "Zoë é" != "e" { assert a == 0 }'],
    "get_nil": ["fo: int? = nil", "gv = get fo"],
    "index_hi": ["fx: [int...] = [1, 2]", "gv = fx[a + 1]"],
    "index_neg": ["fx: [int...] = [1, 2]", "fi = 0 - a", "gv = fx[fi]"],
    "index_write": ["fx: [int...] = [1, 2]", "fx[a + 1] = 3"],
    "index_opassign": ["fx: [int...] = [1, 2]", "fx[a + 1] += 3"],
    "index_empty": ["fx: [int...] = []", "gv = fx[a - 1]"],
    "str_index": ['fs = "ab"', "gv = fs[a + 1]"],
    "remove_hi": ["fx: [int...] = [1, 2]", "gv = fx.remove(a + 1)"],
    "remove_neg": ["fx: [int...] = [1, 2]", "fi = 0 - a", "gv = fx.remove(fi)"],
    "remove_empty": ["fx: [int...] = []", "gv = fx.remove(a - 1)"],
    "map_absent": ["fm = map[str, int]", 'gv = get fm["zz"]'],
    "div_zero_int": ["gv = a / (a - a)"],
    "rem_zero_int": ["gv = a % (a - a)"],
    "div_zero_bigint": ["fb = B5", "gv = fb / (fb - fb)"],
    "rem_zero_bigint": ["fb = B5", "gv = fb % (fb - fb)"],
    "div_zero_float": ["ff = 1.5", "gv = ff / (ff - ff)"],
    # the float divisor is zero in each of its spellings: +0.0 (above), -0.0 out of arithmetic, -0.0 out of a rounding built-in
    "div_negzero_float": ["ff = 1.5", "fm = 0.0 - 1.0", "fz = (ff - ff) * fm", "gv = ff / fz"],
    "div_negzero_ceil": ["ff = 0.0 - 0.4", "fz = ff.ceil()", "gv = 1.5 / fz"],
    "rem_zero_float": ["ff = 1.5", "gv = ff % (ff - ff)"],
    "rem_negzero_float": ["ff = 1.5", "fm = 0.0 - 1.0", "fz = (ff - ff) * fm", "gv = ff % fz"],
    "div_zero_byte": ["fb = 0b11", "fz = 0b0", "gv = fb / fz"],
    "rem_zero_byte": ["fb = 0b11", "fz = 0b0", "gv = fb % fz"],
    "neg_min": ["fw = 0 - 2147483647 - a", "gv = -fw"],
    "shift_range": ["gv = a << 40"],
    "to_byte_range": ["fx = 300 * a", "gv = fx.to_byte()"],
    "to_int_range": ["fb = B99999999999", "gv = fb.to_int()"],
    "pow_overflow": ["fb = B99999999999", "gv = fb.pow(20 * a)"],
    "pow_negative": ["fx = 2", "gv = fx.pow(0 - a)"],
    "substring_range": ['fs = "abc"', "gv = fs.substring(2, 8 + a)"],
    "substring_reversed": ['fs = "abc"', "gv = fs.substring(2, a)"],
    "insert_range": ['fs = "ab"', 'gv = fs.insert("x", 8 + a)'],
    "delete_range": ['fs = "ab"', "gv = fs.delete(1, 8 + a)"],
    "split_boundary": ['fs = "héllo"', "print fs.split(a + 1)"],
    "substring_boundary": ['fs = "héllo"', "gv = fs.substring(0, a + 1)"],
    "insert_boundary": ['fs = "héllo"', 'gv = fs.insert("x", a + 1)'],
    "delete_boundary": ['fs = "héllo"', "gv = fs.delete(a + 1, 4)"],
    "radix": ['fs = "12"', "gv = fs.parse_int_radix(98 + a)"],
    "bigint_radix": ['fs = "12"', "gv = fs.parse_bigint_radix(a)"],
    # arithmetic overflow (see known_findings.json: the unit tests pin a panic for `+`)
    "int_add_overflow": ["gv = 2147483647 + a"],
    "int_sub_overflow": ["gv = (0 - 2147483647) - a - a"],
    "int_mul_overflow": ["fx = 65536 * a", "gv = fx * fx"],
    "bigint_add_overflow": ["fb = B170141183460469231731687303715884105727", "gv = fb + fb"],
    "byte_add_overflow": ["fb = 0b11111111", "fc = 0b1", "gv = fb + fc"],
    "byte_sub_underflow": ["fb = 0b11111111", "fc = 0b1", "gv = fc - fb"],
}
ARITH_OVERFLOW = ["int_add_overflow", "int_sub_overflow", "int_mul_overflow", "bigint_add_overflow", "byte_add_overflow",
                  "byte_sub_underflow"]
KINDS = ["plain", "closure", "method", "ctor", "mapcb", "filtercb", "rec", "recmethod"]
REC_DEPTH = 2
RD = [2]      # recursion depth of the spec being rendered


def unit_call(i, kind, prefix=""):
    """Statements that invoke unit i with argument a and leave its int result in r{i}."""
    n = prefix
    if kind in ("plain", "closure"):
        return ["r%d = %su%d(a)" % (i, n, i)]
    if kind == "rec":
        return ["r%d = %su%d(a, %d)" % (i, n, i, RD[0])]
    if kind == "method":
        return ["r%d = o%d.m(a)" % (i, i)]
    if kind == "recmethod":
        return ["r%d = o%d.m(a, %d)" % (i, i, RD[0])]
    if kind == "ctor":
        return ["t%d = C%d(a)" % (i, i), "r%d = t%d.r" % (i, i)]
    if kind == "mapcb":
        pre = ["g%d = %su%d" % (i, n, i)] if n else []
        f = "g%d" % i if n else "u%d" % i
        return pre + ["l%d: [int...] = [a]" % i, "q%d = l%d.map(%s)" % (i, i, f), "r%d = q%d[0]" % (i, i)]
    if kind == "filtercb":
        pre = ["g%d = %su%d" % (i, n, i)] if n else []
        f = "g%d" % i if n else "u%d" % i
        return pre + ["l%d: [int...] = [a]" % i, "q%d = l%d.filter(%s)" % (i, i, f), "r%d = q%d.len()" % (i, i)]
    raise ValueError(kind)


LOOP_HAZARDS = {
    # loops left or continued from inside the branches of an if / else if / else chain: legal, print nothing, and must leave
    # the frames of the enclosing function (or module) exactly as they were
    "break_elseif": ["hw = 0", "while hw < 5 {", "\tif hw == 9 {", "\t\thw = 0", "\t} else if hw == 2 {", "\t\tbreak", "\t}", "\thw = hw + 1", "}"],
    "continue_elseif": ["hw = 0", "hv = 0", "while hw < 4 {", "\thw = hw + 1", "\tif hw == 9 {", "\t\thv = 1", "\t} else if hw == 2 {", "\t\tcontinue",
                        "\t}", "\thv = hv + 1", "}"],
    "break_else": ["hw = 0", "while hw < 5 {", "\tif hw < 2 {", "\t\thw = hw + 1", "\t} else {", "\t\tbreak", "\t}", "}"],
    "break_from_elseif": ["hv = 0", "from 0 to 6, hi {", "\tif hi == 9 {", "\t\thv = 1", "\t} else if hi == 3 {", "\t\tbreak", "\t}", "\thv = hv + 1", "}"],
    # a loop that takes `continue` many times (block frames left behind would pile up), a `from` loop left from inside an `if`,
    # a `continue` two blocks deep
    "continue_many": ["hw = 0", "hv = 0", "while hw < 70 {", "\thw = hw + 1", "\tif hw != 99 {", "\t\tcontinue", "\t}", "\thv = hv + 1", "}"],
    "break_if_from": ["hv = 0", "from 0 to 6, hi {", "\tif hi == 3 {", "\t\tbreak", "\t}", "\thv = hv + 1", "}"],
    "continue_deep": ["hw = 0", "hv = 0", "while hw < 4 {", "\thw = hw + 1", "\tif hw > 1 {", "\t\tif hw < 4 {", "\t\t\tcontinue", "\t\t}", "\t}", "\thv = hv + 1", "}"],
    "break_nested_elseif": ["hw = 0", "while hw < 3 {", "\tif hw == 9 {", "\t\thw = 0", "\t} else if hw == 1 {", "\t\tif hw == 1 {", "\t\t\tbreak", "\t\t}", "\t}",
                            "\thw = hw + 1", "}"],
}


def render(spec):
    links = spec["links"]
    RD[0] = int(spec.get("rec_depth") or REC_DEPTH)
    n = len(links)
    split = spec.get("split")
    if split is None or split >= n or split < 0 or n == 0:
        split = n
    if split < n and links[split] not in ("plain", "closure", "mapcb", "filtercb", "rec"):
        split = n
    modtop = bool(spec.get("modtop"))
    fail = spec["failure"]
    pre = bool(spec.get("pre")) and n > 0
    root_file = "top" if modtop else "main"
    has_lib = split < n

    def file_of(i):
        return "lib" if i >= split else root_file

    pos = {}      # for assert: (source file, line, col) filled while emitting

    def emit_units(em, idxs, fname):
        # innermost first so that every unit can refer to the next one
        for i in sorted(idxs, reverse=True):
            kind = links[i]
            inner = i == n - 1
            body = []
            if kind == "rec":
                body += ["if d > 0 {", "\treturn self(a, d - 1)", "}"]
            elif kind == "recmethod":
                body += ["if d > 0 {", "\treturn self.m(a, d - 1)", "}"]
            if inner and spec.get("body_hazard") in LOOP_HAZARDS:
                body += LOOP_HAZARDS[spec["body_hazard"]]
            body.append('print "in u%d " + a' % i)
            if kind == "closure":
                body.append("modify cap = cap + 1")
            if inner:
                wrap = spec.get("wrap") or ("if" if pre else None)
                if wrap == "if":
                    body.append("if a > 0 {")
                elif wrap == "else":
                    body += ["if a < 1 {", "\tfq = 0", "} else {"]
                elif wrap == "while":
                    body += ["fq = 0", "while fq < a {"]
                elif wrap == "from":
                    body.append("from 0 to a {")
                elif wrap == "deep":
                    body += ["fq = 0", "while fq < a {", "\tif fq == 0 {"]
                if wrap:
                    pad = "\t\t" if wrap == "deep" else "\t"
                    for st in FAILS[fail]:
                        body.append(pad + st)
                    if wrap in ("while", "deep"):
                        if wrap == "deep":
                            body.append("\t}")
                        body.append("\tfq = fq + 1")
                    body.append("}")
                else:
                    # the failing operation sits directly in the function body
                    for st in FAILS[fail]:
                        body.append(st)
                body.append("r%d = a" % (i + 1))
            else:
                nk = links[i + 1]
                prefix = "lib." if (file_of(i + 1) == "lib" and fname != "lib") else ""
                body += unit_call(i + 1, nk, prefix)
            res = "r%d + 1" % (i + 1)
            exported = (fname == "lib" and i == split)
            if kind == "rec":
                head = ("export u%d: fn(int, int) -> int = fn(a: int, d: int) -> int {" % i) if exported else ("u%d = fn(a: int, d: int) -> int {" % i)
                em.code(head)
                em.indent += 1
                start = len(em.lines)
                for b in body:
                    em.code(b)
                em.code("return %s" % res)
                em.indent -= 1
                em.code("}")
            elif kind in ("plain", "closure", "mapcb"):
                head = ("export u%d: fn(int) -> int = fn(a: int) -> int {" % i) if exported else ("u%d = fn(a: int) -> int {" % i)
                em.code(head)
                em.indent += 1
                start = len(em.lines)
                for b in body:
                    em.code(b)
                em.code("return %s" % res)
                em.indent -= 1
                em.code("}")
            elif kind == "filtercb":
                head = ("export u%d: fn(int) -> bool = fn(a: int) -> bool {" % i) if exported else ("u%d = fn(a: int) -> bool {" % i)
                em.code(head)
                em.indent += 1
                start = len(em.lines)
                for b in body:
                    em.code(b)
                em.code("return %s >= 0" % res)
                em.indent -= 1
                em.code("}")
            elif kind in ("method", "recmethod"):
                em.code("class K%d {" % i)
                em.indent += 1
                em.code("v: int")
                em.code("constructor(self) {")
                em.code("\tself.v = %d" % i)
                em.code("}")
                em.code("fn m(self, a: int) -> int {" if kind == "method" else "fn m(self, a: int, d: int) -> int {")
                em.indent += 1
                start = len(em.lines)
                for b in body:
                    em.code(b)
                em.code("return %s" % res)
                em.indent -= 2
                em.code("\t}")
                em.code("}")
                em.code("o%d = K%d()" % (i, i))
            elif kind == "ctor":
                em.code("class C%d {" % i)
                em.indent += 1
                em.code("r: int")
                em.code("constructor(self, a: int) {")
                em.indent += 1
                start = len(em.lines)
                for b in body:
                    em.code(b)
                em.code("self.r = %s" % res)
                em.indent -= 2
                em.code("\t}")
                em.code("}")
            if inner and fail in ("assert", "assert_unicode"):
                for k in range(start, len(em.lines)):
                    if "assert a == 0" in em.lines[k]:
                        # column counted in characters (tabs and non-ASCII letters are one column each)
                        pos["assert"] = (fname + ".ms", k + 1, em.lines[k].index("assert a == 0") + 1)

    files = {}
    # ---- lib.ms
    if has_lib:
        em = Emitter()
        em.code('print "lib top"')
        if spec.get("bigconst"):
            em.code('hpad = "%s"' % ("a" * int(spec["bigconst"])))      # one instruction argument of several thousand bytes
        em.code("cap = 0")
        emit_units(em, range(split, n), "lib")
        files["lib.ms"] = em.program()
    # ---- root file (main.ms or top.ms)
    em = Emitter()
    em.code('print "%s start"' % root_file)
    if has_lib:
        em.code("import lib")
    if spec.get("bigconst"):
        em.code('hpad = "%s"' % ("b" * int(spec["bigconst"])))
    em.code("cap = 0")
    if spec.get("hazard") == "map_shrink":
        # legal but unusual: a map callback shrinks the very list being mapped (prints nothing; must not disturb what follows)
        em.code("hz: [int...] = [1, 2, 3, 4]\nhq = hz.map(fn(x: int) -> int {\n\tif hz.len() > 1 {\n\t\thr = hz.remove(0)\n\t}\n\treturn x\n})")
    elif spec.get("hazard") == "filter_shrink":
        em.code("hz: [int...] = [1, 2, 3, 4]\nhq = hz.filter(fn(x: int) -> bool {\n\thz.clear()\n\treturn true\n})")
    elif spec.get("hazard") in LOOP_HAZARDS:
        for st in LOOP_HAZARDS[spec["hazard"]]:
            em.code(st)
    emit_units(em, range(0, split), root_file)
    out = []
    if modtop:
        out.append("main start")
    out.append("%s start" % root_file)
    if has_lib:
        out.insert(len(out) - 0, "lib top") if False else None
    # the import of lib runs lib's top level right after the root's first line
    if has_lib:
        out.append("lib top")
    if n == 0:
        em.code("a = 1")
        em.code('print "at root"')
        out.append("at root")
        start = len(em.lines)
        for st in FAILS[fail]:
            em.code(st)
        if fail in ("assert", "assert_unicode"):
            for k in range(start, len(em.lines)):
                if "assert a == 0" in em.lines[k]:
                    pos["assert"] = (root_file + ".ms", k + 1, em.lines[k].index("assert a == 0") + 1)
    else:
        k0 = links[0]
        prefix = "lib." if (file_of(0) == "lib") else ""
        if pre:
            em.code("a = 0")
            for st in unit_call(0, k0, prefix):
                em.code(st)
            em.code('print "pre ok " + r0')
            for i in range(n):
                out.append("in u%d 0" % i)
            out.append("pre ok %d" % (n if k0 != "filtercb" else 1))
            em.code("a = 1")
            calls = unit_call(0, k0, prefix)
            # names were declared by the first call; re-assigning them is fine
            for st in calls:
                em.code(st.replace(": [int...]", "") if st.startswith("l0: ") else st)
        else:
            em.code("a = 1")
            for st in unit_call(0, k0, prefix):
                em.code(st)
        for i in range(n):
            out.append("in u%d 1" % i)
    em.code('print "unreachable"')
    files[root_file + ".ms"] = em.program()
    if modtop:
        files["main.ms"] = 'print "main start"\nimport top\nprint "unreachable main"\n'
    # ---- expected call stack, innermost first
    stack = []
    for i in range(n - 1, -1, -1):
        kind = links[i]
        f = file_of(i) + ".mmm"
        if kind == "method":
            stack.append(["exact", f, "K%d::m" % i])
        elif kind == "recmethod":
            for _ in range(RD[0] + 1):
                stack.append(["exact", f, "K%d::m" % i])
        elif kind == "rec":
            for _ in range(RD[0] + 1):
                stack.append(["fn", f, "u%d" % i])
        elif kind == "ctor":
            stack.append(["exact", f, "C%d::$constructor" % i])
            # constructing an object runs the class body function, which calls the constructor: that frame
            # (labelled with the class name) may or may not be listed
            stack.append(["optional", f, "C%d" % i])
        else:
            stack.append(["fn", f, "u%d" % i])
    stack.append(["exact", root_file + ".mmm", "__module__"])
    if modtop:
        stack.append(["exact", "main.mmm", "__module__"])
    # pre-success value of "pre ok": every unit adds 1 on the way back
    if pre and n > 0:
        # recompute: innermost returns a(=0)+... r_{n} = a = 0, each level +1; filter levels turn the value into a length
        val = 0
        for i in range(n - 1, -1, -1):
            val = val + 1
            if links[i] == "filtercb":
                val = 1 if val >= 0 else 0
        idx = out.index([o for o in out if o.startswith("pre ok")][0])
        out[idx] = "pre ok %d" % val
    lead = int(spec.get("lead") or 0)
    apos = pos.get("assert")
    if lead:
        # every source file starts with blank lines: positions are those of the file as it is on disk
        files = {f: "\n" * lead + src for f, src in files.items()}
        if apos:
            apos = (apos[0], apos[1] + lead, apos[2])
    if spec.get("crlf"):
        # source files saved with CRLF line endings: lines and columns are those of the file as it is on disk
        files = {f: src.replace("\n", "\r\n") for f, src in files.items()}
    return {"files": files, "entry": "main.ms", "expect": [("exact", o) for o in out], "fail": fail, "unordered": False,
            "stack": stack, "assert_pos": apos}


def generate(rng, failure=None, depth=None):
    n = rng.range(0, 6) if depth is None else depth
    links = [rng.choice(KINDS) for _ in range(n)]
    spec = {"links": links, "failure": failure or rng.choice(sorted(FAILS)), "pre": rng.chance(1, 2), "modtop": rng.chance(1, 4),
            "split": rng.range(0, n) if (n and rng.chance(1, 2)) else None}
    # where in the innermost body the failing operation sits (None: directly in the body, or in an `if` when a successful pre-run exists)
    # (the property speaks of call depth 0-6; recursion adds a few activations per link, far from the interpreter's stack limit)
    spec["hazard"] = rng.weighted([(None, 8), ("map_shrink", 1), ("filter_shrink", 1)] + [(h, 1) for h in sorted(LOOP_HAZARDS)])
    spec["crlf"] = rng.chance(1, 8)
    spec["bigconst"] = rng.weighted([(0, 8), (5000, 1), (70000, 1)])
    spec["lead"] = rng.weighted([(0, 5), (1, 1), (2, 1), (7, 1)])
    spec["body_hazard"] = rng.weighted([(None, 6)] + [(h, 1) for h in sorted(LOOP_HAZARDS)])
    spec["rec_depth"] = rng.weighted([(2, 5), (1, 2), (4, 2), (7, 1)])
    spec["wrap"] = rng.weighted([(None, 4), ("if", 2), ("else", 2), ("while", 2), ("from", 2), ("deep", 1)])
    return spec


def shrink(spec):
    n = len(spec["links"])
    for i in range(n):
        c = dict(spec)
        c["links"] = spec["links"][:i] + spec["links"][i + 1:]
        if c.get("split") is not None and c["split"] > i:
            c["split"] -= 1
        yield c
    for key in ("pre", "modtop"):
        if spec.get(key):
            c = dict(spec)
            c[key] = False
            yield c
    for key in ("wrap", "hazard", "body_hazard", "lead", "bigconst", "crlf"):
        if spec.get(key):
            c = dict(spec)
            c[key] = None
            yield c
    if spec.get("split") is not None:
        c = dict(spec)
        c["split"] = None
        yield c
    for i, k in enumerate(spec["links"]):
        if k != "plain":
            c = dict(spec)
            c["links"] = spec["links"][:i] + ["plain"] + spec["links"][i + 1:]
            yield c
