"""Program generators with reference models.  A generated program is described by
{"family": name, "spec": JSON-serialisable spec}; render() turns it into source files plus the
model's expectation."""
from . import containers

FAMILIES = {"containers": containers}
try:
    from . import closures
    FAMILIES["closures"] = closures
except ImportError:
    pass
try:
    from . import classes
    FAMILIES["classes"] = classes
except ImportError:
    pass
try:
    from . import modules
    FAMILIES["modules"] = modules
except ImportError:
    pass
try:
    from . import failures
    FAMILIES["failures"] = failures
except ImportError:
    pass
try:
    from . import captureforms
    FAMILIES["captureforms"] = captureforms
except ImportError:
    pass
try:
    from . import lateshadow
    FAMILIES["lateshadow"] = lateshadow
except ImportError:
    pass
try:
    from . import ownerend
    FAMILIES["ownerend"] = ownerend
except ImportError:
    pass
try:
    from . import libclosures
    FAMILIES["libclosures"] = libclosures
except ImportError:
    pass
try:
    from . import misc
    FAMILIES["misc"] = misc
except ImportError:
    pass


def generate(rng, seed=0, single_module=False, family=None):
    # families marked ONLY_EXPLICIT are template batches of one property and never drawn at random (adding one must not
    # shift what the other properties' random draws generate)
    fams = sorted(f for f in FAMILIES if not (single_module and getattr(FAMILIES[f], "MULTI_MODULE", False)) and not getattr(FAMILIES[f], "ONLY_EXPLICIT", False))
    fam = family or rng.choice(fams)
    spec = FAMILIES[fam].generate(rng)
    g = {"family": fam, "spec": spec}
    r = render(g)
    g["unordered"] = r["unordered"]
    return g


def render(g):
    """-> {"files": {path: text}, "entry": path, "expect": [...], "fail": None|str, "unordered": bool}"""
    mod = FAMILIES[g["family"]]
    r = mod.render(g["spec"])
    if isinstance(r, dict):
        return r
    prog, expect, fail, unordered = r
    return {"files": {"main.ms": prog}, "entry": "main.ms", "expect": expect, "fail": fail, "unordered": unordered}


def materialise(g):
    r = render(g)
    return r["files"], r["entry"]


def shrink(g):
    for spec in FAMILIES[g["family"]].shrink(g["spec"]):
        c = {"family": g["family"], "spec": spec}
        try:
            c["unordered"] = render(c)["unordered"]
        except Exception:
            continue
        yield c
