"""Objects (C08): histories of constructions, aliasings, field reads/writes and method calls over up to
three classes, with a reference heap model (object id -> field store; references are ids).

Class and method names are chosen so that one is a prefix/suffix of another (K1 / K1x, setn / resetn):
a registry keyed carelessly confuses them."""
from .base import Emitter, fmt_value, lit

CLASS_NAMES = ["K1", "K1x", "Q"]
STRS = ["a", "b c", "é", ""]


def fmt_float(x):
    """Rust's Display for f64 on the values used here (halves): integral values print without a fraction, -0.0 prints -0."""
    import math
    if x == int(x):
        return ("-" if math.copysign(1.0, x) < 0 else "") + str(abs(int(x)))
    return repr(x)


def class_source(name, feats, prev):
    """feats: set of optional fields out of {"s","xs","o","peer","other"}; prev = earlier class name or None."""
    L = []
    L.append("class %s {" % name)
    L.append("\tn: int")
    if "s" in feats:
        L.append("\ts: str")
    if "xs" in feats:
        L.append("\txs: [int...]")
    if "o" in feats:
        L.append("\to: int?")
    if "peer" in feats:
        L.append("\tpeer: Self?")
    if "other" in feats and prev:
        L.append("\tother: %s?" % prev)
    if "me" in feats:
        L.append("\tselfref: Self?")
    if "flag" in feats:
        L.append("\tflag: bool")
    if "big" in feats:
        L.append("\tbig: bigint")
    if "fl" in feats:
        L.append("\tfl: float")
    if "cur" in feats:
        L.append("\tcur: Self")
    if "c2" in feats:
        # a constructor with three parameters: the two extra ones end in `tag` in an order-sensitive way
        L.append("\ttag: int")
        L.append("\tconstructor(self, n: int, t: int, u: int) {")
        L.append("\t\tself.tag = t * 10 + u")
    else:
        L.append("\tconstructor(self, n: int) {")
    L.append("\t\tself.n = n + kseed - 5")      # kseed: a module-level variable only the constructor mentions
    if "flag" in feats:
        L.append("\t\tself.flag = false")
    if "big" in feats:
        L.append("\t\tself.big = B1")
    if "fl" in feats:
        L.append("\t\tself.fl = 0.0")
    if "me" in feats:
        L.append("\t\tself.selfref = self")
    if "cur" in feats:
        L.append("\t\tself.cur = self")
    if "s" in feats:
        L.append('\t\tself.s = "s" + n')
    if "xs" in feats:
        L.append("\t\tself.xs = [n]")
    if "o" in feats:
        L.append("\t\tself.o = nil")
    if "peer" in feats:
        L.append("\t\tself.peer = nil")
    if "other" in feats and prev:
        L.append("\t\tself.other = nil")
    L.append("\t}")
    bare = "bare" in feats      # inside a method a field of the object may also be named without `self.`
    sf = "" if bare else "self."
    L.append("\tfn getn(self) -> int {\n\t\treturn %sn\n\t}" % sf)
    L.append("\tfn setn(self, v: int) {\n\t\tself.n = v\n\t}")
    if bare:
        L.append("\tfn resetn(self) {\n\t\tmodify n = 0\n\t}")
    else:
        L.append("\tfn resetn(self) {\n\t\tself.n = 0\n\t}")
    add_body = "\t\t%sn += d\n" % sf
    if "xs" in feats:
        add_body += "\t\t%sxs.push(d)\n" % sf
    L.append("\tfn add(self, d: int) -> int {\n%s\t\treturn self.n\n\t}" % add_body)
    L.append("\tfn twice(self, d: int) -> int {\n\t\ta = self.add(d)\n\t\tb = self.add(d)\n\t\treturn a + b\n\t}")
    L.append("\tfn me(self) -> Self {\n\t\treturn self\n\t}")
    L.append("\tfn fresh(self) -> Self {\n\t\treturn Self(self.n + 100%s)\n\t}" % (", 3, 4" if "c2" in feats else ""))
    # eleven parameters: argument indexes of two digits
    L.append("\tfn wide(self, a1: int, a2: int, a3: int, a4: int, a5: int, a6: int, a7: int, a8: int, a9: int, a10: int, a11: int) -> int {\n"
             "\t\tself.n = a9 + a10 * 10 + a11 * 100 + a1 * 1000\n\t\treturn self.n\n\t}")
    L.append("\tfn add2(self, x: int, y: int) -> int {\n\t\tself.n += x * 10 + y\n\t\treturn self.n\n\t}")
    if "clo" in feats:
        # closures made by a method: one names a field of the object directly, one goes through a local alias of self
        L.append("\tfn mkbare(self) -> fn() -> int {\n\t\treturn fn() -> int {\n\t\t\treturn n\n\t\t}\n\t}")
        L.append("\tfn mkme(self) -> fn(int) -> int {\n\t\tme = self\n\t\treturn fn(d: int) -> int {\n\t\t\treturn me.add(d)\n\t\t}\n\t}")
    L.append("\tfn swapn(self, x: Self) {\n\t\tt = self.n\n\t\tself.n = x.n\n\t\tx.n = t\n\t}")
    cp = "\t\tself.n = x.n\n"
    if "s" in feats:
        cp += "\t\tself.s = x.s\n"
    if "o" in feats:
        cp += "\t\tself.o = x.o\n"
    L.append("\tfn copyfrom(self, x: Self) {\n%s\t}" % cp)
    if "flag" in feats:
        L.append("\tfn toggle(self) -> bool {\n\t\tself.flag = !self.flag\n\t\treturn self.flag\n\t}")
        L.append("\tfn negn(self) -> int {\n\t\tif self.flag {\n\t\t\treturn -self.n\n\t\t}\n\t\treturn self.n\n\t}")
    if "flag" in feats:
        L.append("\tfn both(self) -> bool {\n\t\treturn self.flag && self.n > 3 || !self.flag && self.n < 2\n\t}")
        L.append("\tfn drain(self) -> int {\n\t\tassert self.flag || !self.flag\n\t\tc = 0\n\t\twhile self.flag {\n\t\t\tself.flag = false\n\t\t\tc = c + 1\n\t\t}\n\t\treturn c\n\t}")
    if "fl" in feats:
        L.append("\tfn flip(self) -> float {\n\t\tself.fl = self.fl * -1.0\n\t\treturn self.fl\n\t}")
        L.append("\tfn addf(self, v: float) -> float {\n\t\tself.fl += v\n\t\treturn self.fl\n\t}")
    if "big" in feats:
        L.append("\tfn grow(self) -> bigint {\n\t\tself.big = self.big * B3 + self.n\n\t\treturn self.big\n\t}")
    if "s" in feats:
        L.append("\tfn sets(self, t: str) {\n\t\tself.s = t\n\t}")
        L.append("\tfn cat(self) -> str {\n\t\treturn %ss + self.n\n\t}" % sf)
    if "xs" in feats:
        L.append("\tfn size(self) -> int {\n\t\treturn %sxs.len()\n\t}" % sf)
        L.append("\tfn resize(self) {\n\t\tself.xs.clear()\n\t}")
        L.append("\tfn popfront(self) -> int {\n\t\treturn self.xs.remove(0)\n\t}")
    if "o" in feats:
        L.append("\tfn seto(self, v: int) {\n\t\tself.o = v\n\t}")
        L.append("\tfn clearo(self) {\n\t\tself.o = nil\n\t}")
    if "xs" in feats:
        L.append("\tfn sharexs(self, x: Self) {\n\t\tself.xs = x.xs\n\t}")
        L.append("\tfn absorb(self, x: Self) {\n\t\tself.xs.join(x.xs)\n\t}")
        L.append("\tfn copyxs(self, x: Self) {\n\t\tself.xs = x.xs.clone()\n\t}")
    if "cur" in feats:
        L.append("\tfn swapcur(self, x: Self) -> int {\n\t\tself.cur = x\n\t\treturn 1\n\t}")
        L.append("\tfn curn(self) -> int {\n\t\treturn self.cur.n\n\t}")
    if "peer" in feats:
        L.append("\tfn getp(self) -> Self {\n\t\treturn get self.peer\n\t}")
        L.append("\tfn link(self, x: Self) {\n\t\tself.peer = x\n\t}")
        L.append("\tfn unlink(self) {\n\t\tself.peer = nil\n\t}")
        L.append("\tfn peern(self) -> int {\n\t\tp = get self.peer\n\t\treturn p.n\n\t}")
        L.append("\tfn bumppeer(self, d: int) -> int {\n\t\tp = get self.peer\n\t\treturn p.add(d)\n\t}")
    if "other" in feats and prev:
        L.append("\tfn attach(self, x: %s) {\n\t\tself.other = x\n\t}" % prev)
        L.append("\tfn othern(self) -> int {\n\t\tq = get self.other\n\t\tq.n += 1\n\t\treturn q.n\n\t}")
    L.append("}")
    L.append("take_%s = fn(q: %s, v: int) -> %s {\n\tq.n = v\n\treturn q\n}" % (name, name, name))
    return "\n".join(L)


class HObj:
    def __init__(self, oid, cls, n, feats):
        self.id, self.cls, self.n = oid, cls, n
        self.s = "s%d" % n
        self.xs = [n]
        self.o = None
        self.peer = None
        self.other = None
        self.flag = False
        self.big = 1
        self.fl = 0.0
        self.cur = self
        self.tag = 0


class Interp:
    def __init__(self, classes, in_lib=False):
        self.em = Emitter()
        self.lib = Emitter() if in_lib else None
        self.modform = False
        self.classes = classes          # list of (name, feats list)
        self.feats = {c[0]: set(c[1]) for c in classes}
        self.prev = {}
        prev = None
        if in_lib:
            self.lib.code("kseed = 5")
            self.em.code("kseed = 1000")      # the importer's own variable of the same name must not be seen by the constructor
        else:
            self.em.code("kseed = 5")
        for name, feats in classes:
            self.prev[name] = prev
            src = class_source(name, set(feats), prev)
            if in_lib == "mod":
                # the class lives in an imported module and the importer knows the MODULE only (`import lib`, `lib.K(..)`):
                # no name of the class is bound on the importer's side (and none of its types can be written there)
                cls_src, helper = src.split("\ntake_", 1)
                self.lib.code("export " + cls_src)
                if not self.modform:
                    self.em.code("import lib")
                self.modform = True
            elif in_lib:
                # the class lives in an imported module; the helper that takes and returns it stays in the importer
                cls_src, helper = src.split("\ntake_", 1)
                self.lib.code("export " + cls_src)
                self.em.code("import %s from lib" % name)
                self.em.code("take_" + helper)
            else:
                self.em.code(src)
            prev = name
        self.em.code("r0 = 0\nr1 = \"\"")
        self.r0, self.r1 = 0, ""
        self.helpers = set()
        self.clos = []      # closures made by methods: (name, kind, object)
        self.wdecl = set()  # classes for which the optional work variable w_<class> exists
        self.regs = {}
        self.vars = {}      # name -> HObj
        self.order = []
        self.lists = {}     # list var name -> (cls, [HObj])
        self.n = 0
        self.next_id = 0
        self.step = 0

    def new_obj(self, cls, n, tag=12):
        self.next_id += 1
        o = HObj(self.next_id, cls, n, self.feats[cls])
        o.tag = tag
        return o

    def ctor(self, cls, nexpr, t=1, u=2):
        q = ("lib." + cls) if self.modform else cls
        if "c2" in self.feats[cls]:
            return "%s(%s, %d, %d)" % (q, nexpr, t, u)
        return "%s(%s)" % (q, nexpr)

    def fresh_var(self, o):
        name = "v%d" % self.n
        self.n += 1
        self.vars[name] = o
        self.order.append(name)
        return name

    def observe(self):
        em = self.em
        self.step += 1
        em.code("print r0\nprint r1")
        em.out(str(self.r0))
        em.out(self.r1)
        for name in self.order:
            o = self.vars[name]
            f = self.feats[o.cls]
            em.code("print %s.n" % name)
            em.out(str(o.n))
            if "peer" in f and self.step % 2 == 0 and not self.modform:
                # the optional class-typed field, read with `?=` into the one work variable of the class
                w = "w_%s" % o.cls
                if o.cls not in self.wdecl:
                    self.wdecl.add(o.cls)
                    em.code("%s: %s? = nil" % (w, o.cls))
                em.code("%s ?= %s.peer\nif %s == nil {\n\tprint \"none\"\n} else {\n\tt%s = get %s\n\tprint t%s.n\n}" % (w, name, w, w, w, w))
                em.out("none" if o.peer is None else str(o.peer.n))
            if "c2" in f and self.step % 3 == 0:
                em.code("print %s.tag" % name)
                em.out(str(o.tag))
            if "fl" in f and self.step % 2:
                em.code("print %s.fl" % name)
                em.out(fmt_float(o.fl))
            extra = [x for x in ("s", "xs", "o") if x in f]
            if extra:
                x = extra[self.step % len(extra)]
                em.code("print %s.%s" % (name, x))
                em.out(fmt_value(getattr(o, x), x == "xs"))

    def apply(self, op):
        k = op["op"]
        em = self.em
        if k == "new":
            if op["cls"] not in self.feats:
                return False
            t, u = 1 + op["n"] % 3, 2 + op["n"] % 5
            o = self.new_obj(op["cls"], op["n"], t * 10 + u)
            name = self.fresh_var(o)
            em.code("%s = %s" % (name, self.ctor(op["cls"], str(op["n"]), t, u)))
            return True
        if self.modform and (k in ("bulk_new", "take", "mklist", "regput") or (k == "call" and op.get("m") == "peekpeer")):
            return False      # these need the class's type name, which an importer of the module alone cannot write
        if k == "bulk_new":
            # many objects constructed in a loop and kept in a list; one of them is fetched afterwards
            cls = op["cls"]
            if cls not in self.feats:
                return False
            ln = "bl%d" % self.n
            self.n += 1
            n_ = op["n"]
            em.code("%s: [%s...] = []\nfrom 0 to %d, bi {\n\t%s.push(%s)\n}" % (ln, cls, n_, ln, self.ctor(cls, "bi")))
            objs = [self.new_obj(cls, i) for i in range(n_)]
            self.lists[ln] = (cls, objs)
            name = self.fresh_var(objs[op["i"] % n_])
            em.code("%s = %s[%d]" % (name, ln, op["i"] % n_))
            return True
        if k == "churn":
            # objects that die at once: a helper constructs one, calls a method on it and drops it
            cls = op["cls"]
            if cls not in self.feats:
                return False
            h = "churn_%s" % cls
            if h not in self.helpers:
                self.helpers.add(h)
                em.code("%s = fn(q: int) -> int {\n\tkseed = 300\n\tt = %s\n\tr = t.getn()\n\tt.setn(q + 1)\n\treturn t.add(1) + t.getn() + r * 1000 + kseed - 300\n}" % (h, self.ctor(cls, "q")))
            em.code("print %s(%d)" % (h, op["n"]))
            em.out(str(2 * (op["n"] + 2) + op["n"] * 1000))
            return True
        a = self.vars.get(op.get("a"))
        if a is None:
            return False
        an = op["a"]
        f = self.feats[a.cls]
        b = self.vars.get(op.get("b")) if op.get("b") else None
        if k == "alias":
            name = self.fresh_var(a)
            em.code("%s = %s" % (name, an))
            return True
        if k == "rebind":
            # drop a reference: an existing variable now refers to another object of the same class
            if b is None or b.cls != a.cls or b is a:
                return False
            em.code("%s = %s" % (an, op["b"]))
            self.vars[an] = b
            return True
        if k == "take":
            name = self.fresh_var(a)
            em.code("%s = take_%s(%s, %d)" % (name, a.cls, an, op["v"]))
            a.n = op["v"]
            return True
        if k == "readinto":
            # store a field value into an existing module-level slot: a copy, not a view
            if op.get("which") == "s" and "s" in f:
                em.code("r1 = %s.s" % an)
                self.r1 = a.s
            else:
                em.code("r0 = %s.n" % an)
                self.r0 = a.n
            return True
        if k == "rebindpeer":
            tgt = op.get("b")
            if "peer" not in f or a.peer is None or tgt not in self.vars or self.vars[tgt].cls != a.cls:
                return False
            em.code("%s = get %s.peer" % (tgt, an))
            self.vars[tgt] = a.peer
            return True
        if k == "setfield":
            em.code("%s.n = %d" % (an, op["v"]))
            a.n = op["v"]
            return True
        if k == "opfield":
            sym = op.get("sym", "+")
            v = op["v"]
            if sym in ("/", "%") and v == 0:
                return False
            em.code("%s.n %s= %d" % (an, sym, v))
            if sym == "+":
                a.n = a.n + v
            elif sym == "-":
                a.n = a.n - v
            elif sym == "*":
                a.n = a.n * v
            elif sym == "/":
                a.n = int(a.n / v)
            else:
                a.n = a.n - v * int(a.n / v)
            return True
        if k == "sfield":
            if "s" not in f:
                return False
            if op.get("append"):
                em.code('%s.s += %s' % (an, lit(op["t"])))
                a.s = a.s + op["t"]
            else:
                em.code('%s.s = %s' % (an, lit(op["t"])))
                a.s = op["t"]
            return True
        if k == "xsalias":
            # alias the list field and push through the alias
            if "xs" not in f:
                return False
            t = "t%d" % self.n
            self.n += 1
            em.code("%s = %s.xs\n%s.push(%d)" % (t, an, t, op["v"]))
            a.xs.append(op["v"])
            return True
        if k == "call":
            m = op["m"]
            if m == "getn":
                em.code("print %s.getn()" % an)
                em.out(str(a.n))
            elif m == "setn":
                em.code("%s.setn(%d)" % (an, op["v"]))
                a.n = op["v"]
            elif m == "resetn":
                em.code("%s.resetn()" % an)
                a.n = 0
            elif m == "add":
                em.code("print %s.add(%d)" % (an, op["v"]))
                a.n += op["v"]
                if "xs" in f:
                    a.xs.append(op["v"])
                em.out(str(a.n))
            elif m == "twice":
                em.code("print %s.twice(%d)" % (an, op["v"]))
                a.n += op["v"]
                r1 = a.n
                a.n += op["v"]
                if "xs" in f:
                    a.xs += [op["v"], op["v"]]
                em.out(str(r1 + a.n))
            elif m == "me":
                name = self.fresh_var(a)
                em.code("%s = %s.me()" % (name, an))
            elif m == "fresh":
                o = self.new_obj(a.cls, a.n + 100, 34)
                name = self.fresh_var(o)
                em.code("%s = %s.fresh()" % (name, an))
            elif m == "chainfresh":
                # a chained call on the DIFFERENT object a Self-returning method hands back; the receiver is untouched
                em.code("print %s.fresh().add(%d)" % (an, op["v"]))
                em.out(str(a.n + 100 + op["v"]))
            elif m == "add2":
                # two arguments, the first one a call that updates an object the second one reads
                if b is None:
                    return False
                d = 1 + op["v"] % 3
                em.code("print %s.add2(%s.add(%d), %s.n)" % (an, op["b"], d, op["b"]))
                b.n += d
                if "xs" in self.feats[b.cls]:
                    b.xs.append(d)
                x, y = b.n, b.n
                a.n += x * 10 + y
                em.out(str(a.n))
            elif m == "mkclo":
                if "clo" not in f:
                    return False
                kind = "bare" if op["v"] % 2 else "me"
                gname = "g%d" % len(self.clos)
                em.code("%s = %s.%s()" % (gname, an, "mkbare" if kind == "bare" else "mkme"))
                self.clos.append((gname, kind, a))
            elif m == "callclo":
                # the closure stays bound to the object it was made on, whatever the variable refers to by now
                if not self.clos:
                    return False
                gname, kind, o = self.clos[op["v"] % len(self.clos)]
                if kind == "bare":
                    em.code("print %s()" % gname)
                    em.out(str(o.n))
                else:
                    d = 1 + op["v"] % 4
                    em.code("print %s(%d)" % (gname, d))
                    o.n += d
                    if "xs" in self.feats[o.cls]:
                        o.xs.append(d)
                    em.out(str(o.n))
            elif m == "wide":
                vals = [(op["v"] + q) % 10 for q in range(11)]
                em.code("print %s.wide(%s)" % (an, ", ".join(str(x) for x in vals)))
                a.n = vals[8] + vals[9] * 10 + vals[10] * 100 + vals[0] * 1000
                em.out(str(a.n))
            elif m == "absorb":
                # the receiver's list takes the elements of the argument's list — which may be the very same list
                if "xs" not in f or b is None or b.cls != a.cls:
                    return False
                em.code("%s.absorb(%s)" % (an, op["b"]))
                a.xs.extend(list(b.xs))
            elif m == "copyxs":
                # an independent copy of the other object's list, also when that list is empty
                if "xs" not in f or b is None or b.cls != a.cls:
                    return False
                if op["v"] % 2 == 0 and b is not a:
                    # ... in particular a copy of an EMPTY list, which is then extended through the copy
                    em.code("%s.resize()\n%s.copyxs(%s)\n%s.xs.push(77)" % (op["b"], an, op["b"], an))
                    b.xs.clear()
                    a.xs = [77]
                else:
                    em.code("%s.copyxs(%s)" % (an, op["b"]))
                    a.xs = list(b.xs)
            elif m == "negread":
                # unary operators applied directly to a field read: a read, nothing is stored
                em.code("print -%s.n" % an)
                em.out(str(-a.n))
                if "flag" in f:
                    em.code("print !%s.flag" % an)
                    em.out("false" if a.flag else "true")
                if "fl" in f:
                    em.code("print -%s.fl" % an)
                    em.out(fmt_float(-a.fl))
            elif m == "peeris":
                # identity between an optional field (possibly nil) and an object, in both operand orders
                if "peer" not in f or b is None or b.cls != a.cls:
                    return False
                em.code("print %s.peer is %s\nprint %s is %s.peer" % (an, op["b"], op["b"], an))
                r = "true" if a.peer is b else "false"
                em.out(r)
                em.out(r)
            elif m == "popfront":
                if "xs" not in f:
                    return False
                while len(a.xs) < 3:
                    # removal at the front is only telling with at least two elements behind it
                    em.code("%s.xs.push(%d)" % (an, 60 + len(a.xs)))
                    a.xs.append(60 + len(a.xs))
                em.code("print %s.popfront()" % an)
                em.out(str(a.xs.pop(0)))
            elif m == "peekpeer":
                # an optional field read into ONE work variable per class with `?=`: after a read that finds nil the
                # variable is nil, whatever it held before
                if "peer" not in f:
                    return False
                w = "w_%s" % a.cls
                if a.cls not in self.wdecl:
                    self.wdecl.add(a.cls)
                    em.code("%s: %s? = nil" % (w, a.cls))
                readers = [(an, a)]
                if b is not None and b.cls == a.cls:
                    readers.append((op["b"], b))      # the same work variable reads a second object's field right afterwards
                for rn, ro in readers:
                    em.code("%s ?= %s.peer\nif %s == nil {\n\tprint \"none\"\n} else {\n\tt%s = get %s\n\tprint t%s.n\n}" % (w, rn, w, w, w, w))
                    em.out("none" if ro.peer is None else str(ro.peer.n))
            elif m == "sumread":
                # one expression reads a field and calls a method that updates it: operands are evaluated left to right
                form = op["v"] % 4
                d = 1 + op["v"] % 3
                old = a.n
                a.n += d
                if "xs" in f:
                    a.xs.append(d)
                if form == 0:
                    em.code("print %s.n + %s.add(%d)" % (an, an, d))
                    em.out(str(old + a.n))
                elif form == 1:
                    em.code("print %s.add(%d) + %s.n" % (an, d, an))
                    em.out(str(a.n + a.n))
                elif form == 2:
                    em.code("print %s.add(%d) * 10 + %s.getn()" % (an, d, an))
                    em.out(str(a.n * 10 + a.n))
                else:
                    em.code("print %s.getn() * 10 + %s.add(%d)" % (an, an, d))
                    em.out(str(old * 10 + a.n))
            elif m == "curadd":
                # the receiver is a field read; the argument reassigns that field: the call goes to the object read first
                if "cur" not in f or b is None or b.cls != a.cls:
                    return False
                em.code("print %s.cur.add(%s.swapcur(%s))" % (an, an, op["b"]))
                p = a.cur
                a.cur = b
                p.n += 1
                if "xs" in self.feats[p.cls]:
                    p.xs.append(1)
                em.out(str(p.n))
            elif m == "curn":
                if "cur" not in f:
                    return False
                em.code("print %s.curn()" % an)
                em.out(str(a.cur.n))
            elif m == "setcur":
                if "cur" not in f or b is None or b.cls != a.cls:
                    return False
                em.code("%s.cur = %s" % (an, op["b"]))
                a.cur = b
            elif m == "getcur":
                if "cur" not in f:
                    return False
                name = self.fresh_var(a.cur)
                em.code("%s = %s.cur" % (name, an))
            elif m == "chainpeer":
                if "peer" not in f or a.peer is None:
                    return False
                em.code("print %s.getp().add(%d)" % (an, op["v"]))
                p = a.peer
                p.n += op["v"]
                if "xs" in self.feats[p.cls]:
                    p.xs.append(op["v"])
                em.out(str(p.n))
            elif m == "sharexs":
                if "xs" not in f or b is None or b.cls != a.cls:
                    return False
                em.code("%s.sharexs(%s)" % (an, op["b"]))
                a.xs = b.xs
            elif m == "chain":
                em.code("print %s.me().add(%d)" % (an, op["v"]))
                a.n += op["v"]
                if "xs" in f:
                    a.xs.append(op["v"])
                em.out(str(a.n))
            elif m == "toggle":
                if "flag" not in f:
                    return False
                em.code("print %s.toggle()" % an)
                a.flag = not a.flag
                em.out("true" if a.flag else "false")
            elif m == "negn":
                if "flag" not in f:
                    return False
                em.code("print %s.negn()" % an)
                em.out(str(-a.n if a.flag else a.n))
            elif m == "flip":
                if "fl" not in f:
                    return False
                em.code("print %s.flip()" % an)
                a.fl = a.fl * -1.0
                em.out(fmt_float(a.fl))
            elif m == "addf":
                if "fl" not in f:
                    return False
                v = [0.5, 1.5, -0.5, -1.5, 2.0][op["v"] % 5]
                em.code("print %s.addf(%s)" % (an, repr(v)))
                a.fl = a.fl + v
                em.out(fmt_float(a.fl))
            elif m == "both":
                if "flag" not in f:
                    return False
                em.code("print %s.both()" % an)
                em.out("true" if ((a.flag and a.n > 3) or ((not a.flag) and a.n < 2)) else "false")
            elif m == "drain":
                if "flag" not in f:
                    return False
                em.code("print %s.drain()" % an)
                em.out("1" if a.flag else "0")
                a.flag = False
            elif m == "grow":
                if "big" not in f or a.big > 10 ** 30:
                    return False
                em.code("print %s.grow()" % an)
                a.big = a.big * 3 + a.n
                em.out(str(a.big))
            elif m == "copyfrom":
                if b is None or b.cls != a.cls:
                    return False
                em.code("%s.copyfrom(%s)" % (an, op["b"]))
                a.n = b.n
                if "s" in f:
                    a.s = b.s
                if "o" in f:
                    a.o = b.o
            elif m == "getme":
                if "me" not in f:
                    return False
                name = self.fresh_var(a)
                em.code("%s = get %s.selfref" % (name, an))
            elif m == "swapn":
                if b is None or b.cls != a.cls:
                    return False
                em.code("%s.swapn(%s)" % (an, op["b"]))
                a.n, b.n = b.n, a.n
            elif m == "sets":
                if "s" not in f:
                    return False
                em.code("%s.sets(%s)" % (an, lit(op["t"])))
                a.s = op["t"]
            elif m == "cat":
                if "s" not in f:
                    return False
                em.code("print %s.cat()" % an)
                em.out(a.s + str(a.n))
            elif m == "size":
                if "xs" not in f:
                    return False
                em.code("print %s.size()" % an)
                em.out(str(len(a.xs)))
            elif m == "resize":
                if "xs" not in f:
                    return False
                em.code("%s.resize()" % an)
                a.xs.clear()
            elif m == "seto":
                if "o" not in f:
                    return False
                em.code("%s.seto(%d)" % (an, op["v"]))
                a.o = op["v"]
            elif m == "clearo":
                if "o" not in f:
                    return False
                em.code("%s.clearo()" % an)
                a.o = None
            elif m == "link":
                if "peer" not in f or b is None or b.cls != a.cls:
                    return False
                em.code("%s.link(%s)" % (an, op["b"]))
                a.peer = b
            elif m == "unlink":
                # an optional field that holds an object is cleared again: by a method, or from the outside
                if "peer" not in f:
                    return False
                if a.peer is None and b is not None and b.cls == a.cls:
                    em.code("%s.link(%s)" % (an, op["b"]))      # so that there is something to clear
                    a.peer = b
                if op.get("v", 0) % 2 or self.lib is not None:
                    # (from an importer's side the field of an imported class has lost its `?`: `v.peer = nil` is rejected at
                    # compile time there - a typing quirk, nothing runs wrongly - so importers clear through the method)
                    em.code("%s.unlink()" % an)
                else:
                    # through a handle with a declared class type: a handle that a `Self`-returning method produced has lost the
                    # `?` of its optional fields in the compiler's eyes (`v.peer = nil` is rejected at compile time there — the
                    # same typing quirk as on an importer's side; nothing runs wrongly)
                    self.n_unl = getattr(self, "n_unl", 0) + 1
                    em.code("tu%d: %s = %s" % (self.n_unl, a.cls, an))
                    em.code("tu%d.peer = nil" % self.n_unl)
                a.peer = None
            elif m == "peern":
                if "peer" not in f or a.peer is None:
                    return False
                em.code("print %s.peern()" % an)
                em.out(str(a.peer.n))
            elif m == "bumppeer":
                if "peer" not in f or a.peer is None:
                    return False
                em.code("print %s.bumppeer(%d)" % (an, op["v"]))
                p = a.peer
                p.n += op["v"]
                if "xs" in self.feats[p.cls]:
                    p.xs.append(op["v"])
                em.out(str(p.n))
            elif m == "getpeer":
                if "peer" not in f or a.peer is None:
                    return False
                name = self.fresh_var(a.peer)
                em.code("%s = get %s.peer" % (name, an))
            elif m == "attach":
                if "other" not in f or b is None or b.cls != self.prev[a.cls]:
                    return False
                em.code("%s.attach(%s)" % (an, op["b"]))
                a.other = b
            elif m == "othern":
                if "other" not in f or a.other is None:
                    return False
                em.code("print %s.othern()" % an)
                a.other.n += 1
                em.out(str(a.other.n))
            else:
                return False
            return True
        if k == "is":
            # identity over every pair of live references of one class
            names = [x for x in self.order if self.vars[x].cls == a.cls][:6]
            for i in range(len(names)):
                for j in range(i, len(names)):
                    em.code("print %s is %s" % (names[i], names[j]))
                    em.out("true" if self.vars[names[i]] is self.vars[names[j]] else "false")
            return True
        if k == "mklist":
            names = [x for x in op["names"] if x in self.vars and self.vars[x].cls == a.cls]
            if not names:
                return False
            ln = "l%d" % self.n
            self.n += 1
            em.code("%s: [%s...] = [%s]" % (ln, a.cls, ", ".join(names)))
            self.lists[ln] = (a.cls, [self.vars[x] for x in names])
            return True
        if k == "regput":
            # objects stored in a map keyed by string: the map shares them
            rn = "reg_" + a.cls
            if rn not in self.regs:
                self.regs[rn] = {}
                em.code("%s = map[str, %s]" % (rn, a.cls))
            em.code("%s[%s] = %s" % (rn, lit(op["k"]), an))
            self.regs[rn][op["k"]] = a
            return True
        if k == "regget":
            rn = "reg_" + a.cls
            if rn not in self.regs or op["k"] not in self.regs[rn]:
                return False
            name = self.fresh_var(self.regs[rn][op["k"]])
            em.code("%s = get %s[%s]" % (name, rn, lit(op["k"])))
            return True
        if k == "lpush":
            l = self.lists.get(op.get("l"))
            if l is None or l[0] != a.cls:
                return False
            em.code("%s.push(%s)" % (op["l"], an))
            l[1].append(a)
            return True
        return False

    def apply_list(self, op):
        l = self.lists.get(op.get("l"))
        if l is None or not l[1]:
            return False
        i = op["i"] % len(l[1])
        name = self.fresh_var(l[1][i])
        self.em.code("%s = %s[%d]" % (name, op["l"], i))
        return True


METHODS = ["getn", "setn", "resetn", "add", "twice", "me", "fresh", "chain", "swapn", "sets", "cat", "size", "resize", "seto",
           "clearo", "link", "peern", "bumppeer", "getpeer", "attach", "othern", "copyfrom", "copyfrom", "getme", "toggle", "toggle", "negn", "grow", "both", "drain", "chainfresh", "chainpeer", "sharexs", "sharexs",
           "resize", "flip", "flip", "addf", "sumread", "sumread", "curadd", "curadd", "curn", "setcur", "getcur", "add2", "add2", "mkclo", "mkclo", "callclo", "callclo", "callclo", "peekpeer", "peekpeer", "peekpeer", "popfront", "popfront", "popfront", "copyxs", "copyxs", "negread", "negread", "peeris", "peeris", "peeris", "wide", "wide", "absorb", "absorb", "unlink", "unlink", "unlink"]


def gen_op(rng, it):
    names = list(it.order)
    if not names or (len(names) < 2 and rng.chance(1, 2)) or rng.chance(1, 8):
        return {"op": "new", "cls": rng.choice([c[0] for c in it.classes]), "n": rng.range(0, 9)}
    if rng.chance(1, 8):
        return {"op": "churn", "cls": rng.choice([c[0] for c in it.classes]), "n": rng.range(0, 9)}
    if rng.chance(1, 40) and len(names) < 5:
        return {"op": "bulk_new", "cls": rng.choice([c[0] for c in it.classes]), "n": rng.choice([9, 17, 33]), "i": rng.below(40)}
    a = rng.choice(names)
    same = [x for x in names if it.vars[x].cls == it.vars[a].cls]
    kind = rng.weighted([("call", 10), ("alias", 2), ("rebind", 1), ("take", 1), ("setfield", 2), ("opfield", 2), ("sfield", 1),
                         ("xsalias", 1), ("is", 2), ("mklist", 1), ("lpush", 1), ("lfetch", 2), ("readinto", 2), ("rebindpeer", 1), ("regput", 1), ("regget", 2)])
    op = {"op": kind, "a": a, "v": rng.range(0, 9)}
    if kind == "call":
        # swarm: a history may concentrate on a few methods, so that rare combinations of them meet within 15 operations
        focus = getattr(it, "focus", None)
        op["m"] = rng.choice(focus) if focus and rng.chance(3, 5) else rng.choice(METHODS)
        op["t"] = rng.choice(STRS)
        op["b"] = rng.choice(names)
        if op["m"] in ("swapn", "link", "copyfrom", "sharexs", "curadd", "setcur", "peekpeer", "copyxs", "peeris", "absorb", "unlink"):
            op["b"] = rng.choice(same)
    elif kind in ("rebind", "rebindpeer"):
        op["b"] = rng.choice(same)
    elif kind == "readinto":
        op["which"] = rng.choice(["n", "n", "s"])
    elif kind in ("regput", "regget"):
        op["k"] = rng.choice(["a", "b c", "k"])
    elif kind == "opfield":
        op["sym"] = rng.choice(["+", "+", "-", "*", "/", "%"])
        op["v"] = rng.range(0, 4) if op["sym"] in ("+", "-") else (rng.range(0, 2) if op["sym"] == "*" else rng.range(1, 4))
    elif kind == "sfield":
        op["t"] = rng.choice(STRS)
        op["append"] = rng.chance(1, 2)
    elif kind == "mklist":
        op["names"] = rng.sample(same, min(len(same), rng.range(1, 3)))
    elif kind in ("lpush", "lfetch"):
        if not it.lists:
            return {"op": "is", "a": a}
        op["l"] = rng.choice(sorted(it.lists))
        op["i"] = rng.below(8)
    return op


def gen_classes(rng):
    n = rng.range(1, 3)
    names = rng.sample(CLASS_NAMES, n)
    out = []
    for i, name in enumerate(names):
        feats = [x for x in ("s", "xs", "o", "peer", "other", "me") if rng.chance(3, 5)] + [x for x in ("flag", "big", "fl", "bare", "cur", "c2", "clo") if rng.chance(1, 3)]
        if i == 0:
            feats = [x for x in feats if x != "other"]
        out.append([name, feats])
    return out


def step(it, op):
    if op["op"] == "lfetch":
        return it.apply_list(op)
    return it.apply(op)


def generate(rng, max_ops=15):
    classes = gen_classes(rng)
    in_lib = rng.weighted([(False, 6), (True, 2), ("mod", 1)])
    it = Interp(classes, in_lib)
    if rng.chance(1, 2):
        it.focus = rng.sample(sorted(set(METHODS)), 3) + ["link", "add"]
    ops = []
    nops = rng.range(4, max_ops)
    tries = 0
    while len(ops) < nops and tries < 120:
        tries += 1
        op = gen_op(rng, it)
        if step(it, op):
            ops.append(op)
            it.observe()
    return {"classes": classes, "ops": ops, "lib": in_lib}


def render(spec):
    it = Interp(spec["classes"], spec.get("lib") or False)
    for op in spec["ops"]:
        if step(it, op):
            it.observe()
    if it.lib is not None:
        return {"files": {"main.ms": it.em.program(), "lib.ms": 'print "lib loaded"\n' + it.lib.program()}, "entry": "main.ms",
                "expect": [("exact", "lib loaded")] + it.em.expect, "fail": None, "unordered": False}
    return it.em.program(), it.em.expect, None, False


def shrink(spec):
    ops = spec["ops"]
    for i in range(len(ops) - 1, -1, -1):
        yield {"classes": spec["classes"], "ops": ops[:i] + ops[i + 1:], "lib": spec.get("lib")}
    if len(spec["classes"]) > 1:
        for i in range(len(spec["classes"])):
            used = spec["classes"][i][0]
            rest = spec["classes"][:i] + spec["classes"][i + 1:]
            yield {"classes": rest, "ops": [o for o in ops if o.get("cls") != used], "lib": spec.get("lib")}
    for i, (name, feats) in enumerate(spec["classes"]):
        for f in feats:
            c = [list(x) for x in spec["classes"]]
            c[i] = [name, [x for x in feats if x != f]]
            yield {"classes": c, "ops": ops, "lib": spec.get("lib")}
    if spec.get("lib"):
        yield {"classes": spec["classes"], "ops": ops, "lib": False}
