"""Closures (C07): random typed programs of a mini-language (ints, strings, lists, optionals,
function values, if/while/from, class methods as creation context) rendered to MScript and
interpreted by a reference model with explicit cells: environments map names to cell ids,
function values are (code, captured cells).  The module-level history (calls, owner assignments,
factory re-invocations, closures passed on / stored in lists, is_closure) prints what it observes.

Values stay non-negative and bounded (every assignment is taken modulo 97), so no arithmetic
failure can occur; lists used as index targets are never resized."""
from .base import Emitter, fmt_value

M = 97

# --------------------------------------------------------------------------- rendering

def rx(e):
    k = e[0]
    if k == "i":
        return str(e[1])
    if k == "s":
        return '"%s"' % e[1]
    if k == "v":
        return e[1]
    if k == "nil":
        return "nil"
    if k in ("+", "*"):
        return "(%s %s %s)" % (rx(e[1]), k, rx(e[2]))
    if k == "%":
        return "(%s %% %d)" % (rx(e[1]), e[2])
    if k == "call":
        return "%s(%s)" % (e[1], ", ".join(rx(a) for a in e[2]))
    if k == "len":
        return "%s.len()" % e[1]
    if k == "tbl":
        return "tbl[%s %% 3]" % rx(e[1])
    if k == "cat":
        return "(%s + %s)" % (rx(e[1]), rx(e[2]))
    if k == "slen":
        return "%s.len()" % e[1]
    if k == "get":
        return "(get %s)" % e[1]
    if k == "or":
        return "(%s or %s)" % (e[1], rx(e[2]))
    if k == "cmp":
        return "%s %s %s" % (rx(e[2]), e[1], rx(e[3]))
    if k == "idxof":
        return "(%s.index_of(%s) or 9)" % (e[1], rx(e[2]))
    raise ValueError(e)


TYPES = {"int": "int", "str": "str", "list": "[int...]", "opt": "int?", "optn": "int?", "fn1": "fn(int) -> int",
         "fnlist": "[fn(int) -> int...]"}


def render_fn(params, ret, body, em):
    em.indent += 1
    render_block(body, em)
    em.indent -= 1


def fn_header(params, ret):
    return "fn(%s) -> %s" % (", ".join("%s: %s" % (n, TYPES[t]) for n, t in params), TYPES[ret])


def render_block(stmts, em):
    for s in stmts:
        k = s[0]
        if k == "print":
            em.code("print %s" % rx(s[1]))
        elif k == "decl":
            if s[2] in ("list", "opt", "optn", "fnlist"):
                em.code("%s: %s = %s" % (s[1], TYPES[s[2]], rx_init(s)))
            else:
                em.code("%s = %s" % (s[1], rx(s[3])))
        elif k in ("set", "shadow"):
            em.code("%s = %s" % (s[1], rx(s[2])))
        elif k == "mod":
            em.code("modify %s = %s" % (s[1], rx(s[2])))
        elif k == "opadd":
            em.code("%s += %s" % (s[1], rx(s[2])))
        elif k == "push":
            em.code("%s.push(%s)" % (s[1], rx(s[2])))
        elif k == "assert":
            em.code("assert %s" % rx(s[1]))
        elif k == "if":
            em.code("if %s {" % rx(s[1]))
            em.indent += 1
            render_block(s[2], em)
            em.indent -= 1
            if s[3]:
                em.code("} else {")
                em.indent += 1
                render_block(s[3], em)
                em.indent -= 1
            em.code("}")
        elif k == "while":
            em.code("%s = 0" % s[1])
            em.code("while %s < %s {" % (s[1], rx(s[2])))
            em.indent += 1
            render_block(s[3], em)
            em.code("%s = %s + 1" % (s[1], s[1]))
            em.indent -= 1
            em.code("}")
        elif k == "from":
            step = " step %s" % rx(s[4]) if len(s) > 4 and s[4] is not None else ""
            em.code("from %s to %s%s {" % (rx(s[1]), rx(s[2]), step))
            em.indent += 1
            render_block(s[3], em)
            em.indent -= 1
            em.code("}")
        elif k == "def":
            em.code("%s = %s {" % (s[1], fn_header(s[2], s[3])))
            render_fn(s[2], s[3], s[4], em)
            em.code("}")
        elif k == "ret":
            em.code("return %s" % rx(s[1]))
        elif k == "retfn":
            em.code("return %s" % s[1])
        elif k == "loopmake":
            # from 0 to n, it { k = it * 10 + e ; list.push(fn(d) {...}) }
            em.code("from 0 to %d, %s {" % (s[2], s[3]))
            em.indent += 1
            em.code("%s = (%s * 10) + %s" % (s[4], s[3], rx(s[5])))
            em.code("%s.push(%s {" % (s[1], fn_header([["d", "int"]], "int")))
            em.indent += 1
            render_block(s[6], em)
            em.indent -= 1
            em.code("})")
            em.indent -= 1
            em.code("}")
        elif k == "mapset":
            em.code('%s = map[str, int] {"k": %s}' % (s[1], rx(s[2])))
            em.code('print %s["k"]' % s[1])
        elif k == "listlit":
            em.code("%s: [int...] = [%s, 1]" % (s[1], rx(s[2])))
        elif k == "optset":
            em.code("%s ?= %s" % (s[1], rx(s[2])))
        elif k == "tblset":
            em.code("tbl[%d] = %s" % (s[1], rx(s[2])))
        elif k == "class":
            # class with a method used as closure-creation context
            em.code("class %s {" % s[1])
            em.indent += 1
            em.code("v: int")
            em.code("constructor(self, v: int) {")
            em.code("\tself.v = v")
            em.code("}")
            em.code("fn mk(self, p: int) -> %s {" % TYPES[s[2]])
            em.indent += 1
            em.code("fv = self.v")
            render_block(s[3], em)
            em.indent -= 1
            em.code("}")
            em.indent -= 1
            em.code("}")
        elif k == "new":
            em.code("%s = %s(%s)" % (s[1], s[2], rx(s[3])))
        elif k == "mcall":
            em.code("%s = %s.mk(%s)" % (s[1], s[2], rx(s[3])))
        elif k == "fieldset":
            em.code("%s.v = %s" % (s[1], rx(s[2])))
        elif k == "fieldprint":
            em.code("print %s.v" % s[1])
        elif k == "fetch":
            em.code("%s = %s[%d]" % (s[1], s[2], s[3]))
        elif k == "mklist":
            em.code("%s: [fn(int) -> int...] = [%s]" % (s[1], ", ".join(s[2])))
        elif k == "isclosure":
            em.code("print %s.is_closure()" % s[1])
        elif k == "repeat":
            em.code("rp = 0\nfrom 0 to %d {\n\trp = %s(%d)\n}\nprint rp" % (s[2], s[1], s[3]))
        elif k == "mapcall":
            em.code("print tbl.map(%s)" % s[1])
        elif k == "filtcall":
            if s[3] == 0:
                # predicate writes a module-level variable through `modify`
                em.code("%s = fn(q: int) -> bool {\n\tmodify %s = ((%s + q) %% 97)\n\treturn (%s(q) %% 2) == 0\n}" % (s[1], s[4], s[4], s[2]))
            else:
                # predicate made by a factory whose frame is gone when filter calls it
                em.code("%s_mk = fn(t: int) -> fn(int) -> bool {\n\treturn fn(q: int) -> bool {\n\t\treturn ((%s(q) + t) %% 2) == 0\n\t}\n}" % (s[1], s[2]))
                em.code("%s = %s_mk(%d)" % (s[1], s[1], s[5]))
            em.code("print tbl.filter(%s)" % s[1])
        else:
            raise ValueError(s)


def rx_init(s):
    if s[2] == "list":
        return "[" + ", ".join(rx(x) for x in s[3]) + "]"
    if s[2] == "fnlist":
        return "[]"
    return rx(s[3])


# ------------------------------------------------------------------ reference interpreter

class Cell:
    __slots__ = ("v",)

    def __init__(self, v):
        self.v = v


class Closure:
    def __init__(self, params, body, env, name, captures):
        self.params, self.body, self.env, self.name, self.captures = params, body, env, name, captures


class Obj:
    def __init__(self, cls, v):
        self.cls, self.vcell = cls, Cell(v)


class Ret(Exception):
    def __init__(self, v):
        self.v = v


class Frame:
    def __init__(self, captured, locals_=None):
        self.captured = captured
        self.locals = locals_ or {}
        self.blocks = []

    def cell(self, name):
        for b in reversed(self.blocks):
            if name in b:
                return b[name]
        if name in self.locals:
            return self.locals[name]
        if name in self.captured:
            return self.captured[name]
        raise KeyError("model: name %r not in scope" % name)

    def snapshot(self):
        env = dict(self.captured)
        env.update(self.locals)
        for b in self.blocks:
            env.update(b)
        return env


def slen(s):
    return len(s.encode())


class Model:
    def __init__(self):
        self.out = []
        self.classes = {}
        self.steps = 0

    def ev(self, e, fr):
        k = e[0]
        if k == "i" or k == "s":
            return e[1]
        if k == "nil":
            return None
        if k == "v":
            return fr.cell(e[1]).v
        if k == "+":
            return self.ev(e[1], fr) + self.ev(e[2], fr)
        if k == "*":
            return self.ev(e[1], fr) * self.ev(e[2], fr)
        if k == "%":
            return self.ev(e[1], fr) % e[2]
        if k == "call":
            f = fr.cell(e[1]).v
            args = [self.ev(a, fr) for a in e[2]]
            return self.call(f, args)
        if k == "len":
            return len(fr.cell(e[1]).v)
        if k == "tbl":
            return fr.cell("tbl").v[self.ev(e[1], fr) % 3]
        if k == "cat":
            a, b = self.ev(e[1], fr), self.ev(e[2], fr)
            return fmt_value(a) + fmt_value(b)
        if k == "slen":
            return slen(fr.cell(e[1]).v)
        if k == "get":
            v = fr.cell(e[1]).v
            assert v is not None
            return v
        if k == "or":
            v = fr.cell(e[1]).v
            return v if v is not None else self.ev(e[2], fr)
        if k == "cmp":
            a, b = self.ev(e[2], fr), self.ev(e[3], fr)
            return {"<": a < b, ">": a > b, "==": a == b, "!=": a != b, "<=": a <= b, ">=": a >= b}[e[1]]
        if k == "idxof":
            lst = fr.cell(e[1]).v
            x = self.ev(e[2], fr)
            return lst.index(x) if x in lst else 9
        raise ValueError(e)

    def call(self, f, args):
        self.steps += 1
        if self.steps > 20000:
            raise RuntimeError("model: runaway program")
        fr = Frame(f.env, {p[0]: Cell(a) for p, a in zip(f.params, args)})
        try:
            self.block(f.body, fr)
        except Ret as r:
            return r.v
        return None

    def block(self, stmts, fr):
        for s in stmts:
            self.stmt(s, fr)

    def declare(self, fr, name, value):
        (fr.blocks[-1] if fr.blocks else fr.locals)[name] = Cell(value)

    def stmt(self, s, fr):
        k = s[0]
        if k == "print":
            v = self.ev(s[1], fr)
            self.out.append(fmt_value(v) if not isinstance(v, list) else fmt_value(v, True))
        elif k == "decl":
            if s[2] == "list":
                self.declare(fr, s[1], [self.ev(x, fr) for x in s[3]])
            elif s[2] == "fnlist":
                self.declare(fr, s[1], [])
            else:
                self.declare(fr, s[1], self.ev(s[3], fr))
        elif k == "set":
            fr.cell(s[1]).v = self.ev(s[2], fr)
        elif k == "shadow":
            fr.locals[s[1]] = Cell(self.ev(s[2], fr))
        elif k == "mod":
            fr.cell(s[1]).v = self.ev(s[2], fr)
        elif k == "opadd":
            # op-assignment reads and updates the variable the name denotes: the local if there is one, else the captured one
            c = fr.cell(s[1])
            c.v = c.v + self.ev(s[2], fr)
        elif k == "push":
            fr.cell(s[1]).v.append(self.ev(s[2], fr))
        elif k == "assert":
            assert self.ev(s[1], fr)
        elif k == "if":
            fr.blocks.append({})
            try:
                self.block(s[2] if self.ev(s[1], fr) else s[3], fr)
            finally:
                fr.blocks.pop()
        elif k == "while":
            fr.cell(s[1]).v = 0
            while fr.cell(s[1]).v < self.ev(s[2], fr):
                fr.blocks.append({})
                try:
                    self.block(s[3], fr)
                finally:
                    fr.blocks.pop()
                fr.cell(s[1]).v += 1
        elif k == "from":
            lo, hi = self.ev(s[1], fr), self.ev(s[2], fr)
            step = self.ev(s[4], fr) if len(s) > 4 and s[4] is not None else 1
            i = lo
            while i < hi:
                fr.blocks.append({})
                try:
                    self.block(s[3], fr)
                finally:
                    fr.blocks.pop()
                i += step
        elif k == "def":
            env = fr.snapshot()
            self.declare(fr, s[1], Closure(s[2], s[4], env, s[1], captures_of(s[2], s[4])))
        elif k == "ret":
            raise Ret(self.ev(s[1], fr))
        elif k == "retfn":
            raise Ret(fr.cell(s[1]).v)
        elif k == "loopmake":
            for it in range(s[2]):
                fr.blocks.append({})
                try:
                    self.declare(fr, s[3], it)
                    self.declare(fr, s[4], it * 10 + self.ev(s[5], fr))
                    env = fr.snapshot()
                    fr.cell(s[1]).v.append(Closure([["d", "int"]], s[6], env, "<loop>", captures_of([["d", "int"]], s[6])))
                finally:
                    fr.blocks.pop()
        elif k == "mapset":
            v = self.ev(s[2], fr)
            self.declare(fr, s[1], {"k": v})
            self.out.append(fmt_value(v))
        elif k == "listlit":
            self.declare(fr, s[1], [self.ev(s[2], fr), 1])
        elif k == "optset":
            fr.cell(s[1]).v = self.ev(s[2], fr)
        elif k == "tblset":
            fr.cell("tbl").v[s[1]] = self.ev(s[2], fr)
        elif k == "class":
            self.classes[s[1]] = (s[2], s[3], fr.snapshot(), len(s) > 4 and s[4])
        elif k == "new":
            self.declare(fr, s[1], Obj(s[2], self.ev(s[3], fr)))
        elif k == "mcall":
            o = fr.cell(s[2]).v
            ret, body, env, bare = self.classes[o.cls]
            if bare:
                env = dict(env)
                env["v"] = o.vcell
            mfr = Frame(env, {"p": Cell(self.ev(s[3], fr)), "fv": Cell(o.vcell.v)})
            try:
                self.block(body, mfr)
                res = None
            except Ret as r:
                res = r.v
            self.declare(fr, s[1], res)
        elif k == "fieldset":
            fr.cell(s[1]).v.vcell.v = self.ev(s[2], fr)
        elif k == "fieldprint":
            self.out.append(str(fr.cell(s[1]).v.vcell.v))
        elif k == "fetch":
            self.declare(fr, s[1], fr.cell(s[2]).v[s[3]])
        elif k == "mklist":
            self.declare(fr, s[1], [fr.cell(n).v for n in s[2]])
        elif k == "isclosure":
            f = fr.cell(s[1]).v
            self.out.append("true" if f.captures else "false")
        elif k == "repeat":
            f = fr.cell(s[1]).v
            r = 0
            for _ in range(s[2]):
                r = self.call(f, [s[3]])
            self.out.append(str(r))
        elif k == "mapcall":
            f = fr.cell(s[1]).v
            self.out.append(fmt_value([self.call(f, [x]) for x in list(fr.cell("tbl").v)], True))
        elif k == "filtcall":
            f = fr.cell(s[2]).v
            res = []
            for x in list(fr.cell("tbl").v):
                if s[3] == 0:
                    c = fr.cell(s[4])
                    c.v = (c.v + x) % 97
                    keep = self.call(f, [x]) % 2 == 0
                else:
                    keep = (self.call(f, [x]) + s[5]) % 2 == 0
                if keep:
                    res.append(x)
            self.out.append(fmt_value(res, True))
        else:
            raise ValueError(s)


def names_in_expr(e, acc):
    k = e[0]
    if k == "v":
        acc.add(e[1])
    elif k in ("+", "*", "cat"):
        names_in_expr(e[1], acc)
        names_in_expr(e[2], acc)
    elif k == "%":
        names_in_expr(e[1], acc)
    elif k == "call":
        acc.add(e[1])
        for a in e[2]:
            names_in_expr(a, acc)
    elif k in ("len", "slen", "get"):
        acc.add(e[1])
    elif k == "tbl":
        acc.add("tbl")
        names_in_expr(e[1], acc)
    elif k in ("or", "idxof"):
        acc.add(e[1])
        names_in_expr(e[2], acc)
    elif k == "cmp":
        names_in_expr(e[2], acc)
        names_in_expr(e[3], acc)


def free_names(params, body):
    """Names a function body refers to that it does not bind itself."""
    bound = {p[0] for p in params}
    free = set()

    def walk(stmts, bound):
        bound = set(bound)
        for s in stmts:
            k = s[0]
            used = set()
            if k in ("print", "assert", "ret"):
                names_in_expr(s[1], used)
            elif k == "decl":
                if s[2] == "list":
                    for x in s[3]:
                        names_in_expr(x, used)
                elif s[2] != "fnlist":
                    names_in_expr(s[3], used)
                free.update(used - bound)
                bound.add(s[1])
                continue
            elif k in ("set", "mod", "push", "optset", "opadd"):
                used.add(s[1])
                names_in_expr(s[2], used)
            elif k == "shadow":
                names_in_expr(s[2], used)
                free.update(used - bound)
                bound.add(s[1])
                continue
            elif k == "if":
                names_in_expr(s[1], used)
                free.update(used - bound)
                walk(s[2], bound)
                walk(s[3], bound)
                continue
            elif k == "while":
                used.add(s[1])
                names_in_expr(s[2], used)
                free.update(used - bound)
                walk(s[3], bound)
                continue
            elif k == "from":
                names_in_expr(s[1], used)
                names_in_expr(s[2], used)
                if len(s) > 4 and s[4] is not None:
                    names_in_expr(s[4], used)
                free.update(used - bound)
                walk(s[3], bound)
                continue
            elif k == "def":
                inner = free_names(s[2], s[4])
                free.update(inner - bound)
                bound.add(s[1])
                continue
            elif k == "retfn":
                used.add(s[1])
            elif k == "tblset":
                used.add("tbl")
                names_in_expr(s[2], used)
            elif k == "fieldset":
                used.add(s[1])
                names_in_expr(s[2], used)
            elif k == "fieldprint":
                used.add(s[1])
            elif k == "repeat":
                used.add(s[1])
            elif k == "mapcall":
                used.update(["tbl", s[1]])
            elif k == "filtcall":
                used.update(["tbl", s[2]])
                if s[3] == 0:
                    used.add(s[4])
            elif k == "loopmake":
                used.add(s[1])
                names_in_expr(s[5], used)
                inner = free_names([["d", "int"]], s[6]) - {s[3], s[4]}
                free.update((used | inner) - bound)
                continue
            elif k in ("mapset", "listlit"):
                names_in_expr(s[2], used)
                free.update(used - bound)
                bound.add(s[1])
                continue
            free.update(used - bound)
    walk(body, bound)
    return free


def captures_of(params, body):
    return len(free_names(params, body)) > 0


# -------------------------------------------------------------------------- generation

class Scope:
    def __init__(self, parent=None):
        self.parent = parent
        self.own = {}          # name -> type

    def visible(self):
        v = dict(self.parent.visible()) if self.parent else {}
        v.update(self.own)
        return v

    def captured(self):
        v = self.parent.visible() if self.parent else {}
        return {n: t for n, t in v.items() if n not in self.own}


class Gen:
    def __init__(self, rng):
        self.rng = rng
        self.n = 0

    def name(self, p):
        self.n += 1
        return "%s%d" % (p, self.n)

    def of_type(self, sc, t, captured_only=False, own_only=False):
        if captured_only:
            src = sc.captured()
        elif own_only:
            src = sc.own
        else:
            src = sc.visible()
        return sorted(n for n, tt in src.items() if tt == t)

    def int_expr(self, sc, depth=0, prefer_captured=True):
        rng = self.rng
        ints_c = self.of_type(sc, "int", captured_only=True)
        ints = self.of_type(sc, "int")
        choices = [("lit", 2)]
        if ints:
            choices.append(("var", 5))
        if ints_c and prefer_captured:
            choices.append(("cvar", 6))
        if depth < 2:
            choices += [("add", 4), ("mul", 1), ("idf", 2), ("tbl", 2)]
            if self.of_type(sc, "list"):
                choices += [("len", 2)]
            if self.of_type(sc, "str"):
                choices.append(("slen", 1))
            if self.of_type(sc, "opt"):
                choices += [("get", 2), ("or", 2)]
            if self.of_type(sc, "optn"):
                choices += [("orn", 3)]
            if self.of_type(sc, "fn1") and depth < 1:
                choices.append(("call", 2))
        k = rng.weighted(choices)
        if k == "lit":
            return ["i", rng.range(0, 9)]
        if k == "var":
            return ["v", rng.choice(ints)]
        if k == "cvar":
            return ["v", rng.choice(ints_c)]
        if k == "add":
            return ["+", self.int_expr(sc, depth + 1), self.int_expr(sc, depth + 1)]
        if k == "mul":
            return ["*", self.int_expr(sc, depth + 1), ["i", rng.range(2, 3)]]
        if k == "idf":
            return ["call", "idf", [self.int_expr(sc, depth + 1)]]
        if k == "tbl":
            return ["tbl", self.int_expr(sc, depth + 1)]
        if k == "len":
            return ["len", rng.choice(self.of_type(sc, "list"))]
        if k == "idxof":
            return ["idxof", rng.choice(self.of_type(sc, "list")), self.int_expr(sc, depth + 1)]
        if k == "slen":
            return ["slen", rng.choice(self.of_type(sc, "str"))]
        if k == "get":
            return ["get", rng.choice(self.of_type(sc, "opt"))]
        if k == "or":
            return ["or", rng.choice(self.of_type(sc, "opt")), self.int_expr(sc, depth + 1)]
        if k == "orn":
            # an optional that may hold nil is only ever read through `or`
            return ["or", rng.choice(self.of_type(sc, "optn")), self.int_expr(sc, depth + 1)]
        if k == "call":
            return ["call", rng.choice(self.of_type(sc, "fn1")), [self.int_expr(sc, depth + 1)]]
        raise ValueError(k)

    def bounded(self, e):
        return ["%", e, M]

    def cond(self, sc):
        return ["cmp", self.rng.choice(["<", ">", "==", "!=", "<=", ">="]), self.int_expr(sc, 1), self.int_expr(sc, 1)]

    def simple_stmt(self, sc):
        """Statements allowed inside blocks: no declarations."""
        rng = self.rng
        own_i = self.of_type(sc, "int", own_only=True)
        cap_i = self.of_type(sc, "int", captured_only=True)
        cap_s = self.of_type(sc, "str", captured_only=True)
        lists = self.of_type(sc, "list")
        choices = [("print", 2)]
        if own_i:
            choices.append(("set", 4))
        if cap_i:
            choices.append(("mod", 4))
        if cap_s:
            choices.append(("mods", 1))
        if own_i or cap_i:
            choices.append(("opadd", 3))
        if lists:
            choices.append(("push", 2))
        cap_on = self.of_type(sc, "optn", captured_only=True)
        if cap_on:
            choices.append(("modopt", 3))
        if own_i:
            choices.append(("setraw", 1))
        if cap_i:
            choices.append(("modraw", 2))
        k = rng.weighted(choices)
        if k == "modopt":
            # a captured optional is written through `modify`, to a value or to nil (both come out of the helper)
            return ["mod", rng.choice(cap_on), ["call", "feed", [["i", rng.choice([0, 1, 5, 5])]]]]
        if k == "setraw":
            # the right-hand side is a bare element read: the VALUE is stored, the variable does not follow later writes to the element
            return ["set", rng.choice(own_i), ["tbl", self.int_expr(sc, 1)]]
        if k == "modraw":
            return ["mod", rng.choice(cap_i), ["tbl", self.int_expr(sc, 1)]]
        if k == "print":
            if rng.chance(1, 3) and self.of_type(sc, "str"):
                return ["print", ["cat", ["v", rng.choice(self.of_type(sc, "str"))], self.int_expr(sc, 1)]]
            return ["print", self.int_expr(sc, 1)]
        if k == "set":
            return ["set", rng.choice(own_i), self.bounded(self.int_expr(sc))]
        if k == "mod":
            return ["mod", rng.choice(cap_i), self.bounded(self.int_expr(sc))]
        if k == "opadd":
            return ["opadd", rng.choice(own_i + cap_i), ["%", self.int_expr(sc, 1), 7]]
        if k == "mods":
            n = rng.choice(cap_s)
            return ["mod", n, ["cat", ["v", n], ["s", rng.choice(["a", "b", "z"])]]]
        return ["push", rng.choice(lists), self.bounded(self.int_expr(sc, 1))]

    def body(self, sc, depth, ret="int", allow_nested=True):
        """Body of a function whose static scope is sc (params already in sc.own).  Returns stmts."""
        rng = self.rng
        stmts = []
        acc = self.name("acc")
        stmts.append(["decl", acc, "int", self.int_expr(sc, 1)])
        sc.own[acc] = "int"
        nst = rng.range(1, 5)
        for _ in range(nst):
            cap_i = self.of_type(sc, "int", captured_only=True)
            cap_any = sc.captured()
            forms = [("simple", 6), ("if", 3), ("while", 2), ("from", 2), ("assert", 1), ("listlit", 1), ("mapset", 1), ("optdecl", 1)]
            # a plain assignment to an outer name is generated only as the first mention of that name in the body:
            # the statement does not say what an earlier read / modify / nested capture of the name then denotes
            nested_used = free_names([], stmts)      # every outer name this body has mentioned so far
            cap_i = [n for n in cap_i if n not in nested_used]
            if cap_i:
                forms.append(("shadow", 2))
            if self.of_type(sc, "opt", own_only=True):
                forms.append(("optset", 1))
            forms.append(("optndecl", 1))
            if self.of_type(sc, "optn", own_only=True):
                forms.append(("optnset", 2))
            if allow_nested and depth < 3:
                forms.append(("nested", 3))
                if ret == "fn1":
                    forms.append(("blockret", 3))
            if self.of_type(sc, "fnlist", own_only=True) is not None and depth < 3 and allow_nested:
                forms.append(("loopmake", 1))
            k = rng.weighted(forms)
            if k == "simple":
                stmts.append(self.simple_stmt(sc))
            elif k == "if":
                stmts.append(["if", self.cond(sc), [self.simple_stmt(sc) for _ in range(rng.range(1, 2))],
                              [self.simple_stmt(sc)] if rng.chance(1, 2) else []])
            elif k == "while":
                w = self.name("w")
                stmts.append(["decl", w, "int", ["i", 0]])
                sc.own[w] = "int"
                inner = [self.simple_stmt(sc) for _ in range(rng.range(1, 2))]
                inner = [s for s in inner if not (s[0] == "set" and s[1] == w)]
                stmts.append(["while", w, ["%", self.int_expr(sc, 1), 4], inner])
            elif k == "from":
                # bounds/step use (captured) variables; the body only accumulates into acc and prints
                saved = sc.own.pop(acc)      # the loop body updates acc: keep it out of the bounds
                lo = ["%", self.int_expr(sc, 1), 3]
                hi = ["+", ["%", self.int_expr(sc, 1), 4], ["i", 2]]
                step = ["+", ["%", self.int_expr(sc, 1), 2], ["i", 1]] if rng.chance(1, 3) else None
                sc.own[acc] = saved
                inner = [["set", acc, ["%", ["+", ["v", acc], ["i", rng.range(1, 5)]], M]]]
                stmts.append(["from", lo, hi, inner, step])
            elif k == "assert":
                e = self.int_expr(sc, 1)
                stmts.append(["assert", ["cmp", "==", e, e]])
            elif k == "listlit":
                n = self.name("tl")
                stmts.append(["listlit", n, self.int_expr(sc, 1)])
                sc.own[n] = "list"
            elif k == "mapset":
                stmts.append(["mapset", self.name("tm"), self.int_expr(sc, 1)])
            elif k == "optdecl":
                n = self.name("o")
                stmts.append(["decl", n, "opt", self.int_expr(sc, 1)])
                sc.own[n] = "opt"
            elif k == "optset":
                stmts.append(["optset", rng.choice(self.of_type(sc, "opt", own_only=True)), self.bounded(self.int_expr(sc, 1))])
            elif k == "optndecl":
                n = self.name("on")
                stmts.append(["decl", n, "optn", ["nil"] if rng.chance(1, 2) else self.int_expr(sc, 1)])
                sc.own[n] = "optn"
            elif k == "optnset":
                # the owner re-assigns its optional, to nil or to a value, after inner closures may have captured it
                # (`x ?= nil` with a literal nil does not type-check: the nil comes out of a module-level optional)
                stmts.append(["optset", rng.choice(self.of_type(sc, "optn", own_only=True)),
                              ["call", "feed", [["i", 5]]] if rng.chance(1, 2) else self.bounded(self.int_expr(sc, 1))])
            elif k == "shadow":
                n = rng.choice(cap_i)
                stmts.append(["shadow", n, self.bounded(self.int_expr(sc, 1))])
                sc.own[n] = "int"
            elif k == "blockret":
                # if <cond> { bv = e ; h = fn(d) {.. bv ..} ; return h }: the variable lives in the block, the function returns
                # from inside it; every execution of the block makes a fresh bv
                bv, n = self.name("bv"), self.name("h")
                bsc = _with(sc, {bv: "int"})
                isc = Scope(bsc)
                isc.own["d"] = "int"
                b = self.body(isc, depth + 1, "int", allow_nested=False)
                b.insert(1, ["mod", bv, ["%", ["+", ["v", bv], ["v", "d"]], M]])
                stmts.append(["if", self.cond(sc) if rng.chance(1, 2) else ["cmp", "==", ["i", 1], ["i", 1]],
                              [["decl", bv, "int", self.int_expr(sc, 1)], ["def", n, [["d", "int"]], "int", b], ["retfn", n]], []])
            elif k == "nested":
                n = self.name("h")
                isc = Scope(sc)
                isc.own["d"] = "int"
                b = self.body(isc, depth + 1, "int")
                stmts.append(["def", n, [["d", "int"]], "int", b])
                sc.own[n] = "fn1"
                if rng.chance(2, 3):
                    stmts.append(["set", acc, ["%", ["+", ["v", acc], ["call", n, [self.int_expr(sc, 1)]]], M]])
            elif k == "loopmake":
                fl = self.name("fl")
                stmts.append(["decl", fl, "fnlist", None])
                sc.own[fl] = "fnlist"
                it, kk = self.name("it"), self.name("k")
                isc = Scope(sc)
                isc.parent = _with(sc, {kk: "int"})
                isc.own["d"] = "int"
                b = self.body(isc, depth + 1, "int", allow_nested=False)
                n = rng.range(2, 3)
                stmts.append(["loopmake", fl, n, it, kk, self.int_expr(sc, 1), b])
                g = self.name("lf")
                stmts.append(["fetch", g, fl, rng.below(n)])
                sc.own[g] = "fn1"
                stmts.append(["set", acc, ["%", ["+", ["v", acc], ["call", g, [["i", rng.range(0, 5)]]]], M]])
        if ret == "int":
            stmts.append(["ret", ["+", ["v", acc], self.int_expr(sc, 1)]])
        elif ret == "fn1":
            fns = self.of_type(sc, "fn1", own_only=True)
            if not fns:
                n = self.name("h")
                isc = Scope(sc)
                isc.own["d"] = "int"
                stmts.append(["def", n, [["d", "int"]], "int", self.body(isc, depth + 1, "int")])
                sc.own[n] = "fn1"
                fns = [n]
            stmts.append(["retfn", rng.choice(fns)])
        elif ret == "fnlist":
            fns = self.of_type(sc, "fn1", own_only=True)
            while len(fns) < 2:
                n = self.name("h")
                isc = Scope(sc)
                isc.own["d"] = "int"
                stmts.append(["def", n, [["d", "int"]], "int", self.body(isc, depth + 1, "int", allow_nested=False)])
                sc.own[n] = "fn1"
                fns = self.of_type(sc, "fn1", own_only=True)
            pick = rng.sample(fns, 2)
            r = self.name("r")
            stmts.append(["mklist", r, pick])
            stmts.append(["retfn", r])
        return stmts


def _with(sc, extra):
    s = Scope(sc)
    s.own.update(extra)
    return s


def generate(rng, max_ops=12):
    g = Gen(rng)
    top = Scope()
    prog = []
    # prologue: fixed helpers
    prog.append(["decl", "tbl", "list", [["i", 5], ["i", 6], ["i", 7]]])
    prog.append(["def", "idf", [["a", "int"]], "int", [["ret", ["+", ["v", "a"], ["i", 1]]]]])
    # (`x ?= nil` with a literal nil, or with a variable the compiler knows to be nil, does not type-check: the nil comes
    # out of a function with two return paths)
    prog.append(["def", "feed", [["k", "int"]], "optn",
                 [["if", ["cmp", "<", ["v", "k"], ["i", 2]], [["ret", ["*", ["+", ["v", "k"], ["i", 1]], ["i", 10]]]], []], ["ret", ["nil"]]]])
    top.own["tbl"] = "list_const"
    top.own["idf"] = "helper"
    top.own["feed"] = "helper"
    # module-level variables
    nv = rng.range(1, 3)
    for i in range(nv):
        t = rng.weighted([("int", 5), ("str", 2), ("list", 2), ("opt", 1), ("optn", 2)])
        n = g.name("g")
        if t == "int":
            prog.append(["decl", n, "int", ["i", rng.range(0, 9)]])
        elif t == "str":
            prog.append(["decl", n, "str", ["s", rng.choice(["a", "bc", "é"])]])
        elif t == "list":
            prog.append(["decl", n, "list", [["i", rng.range(0, 9)] for _ in range(rng.range(1, 3))]])
        elif t == "optn":
            prog.append(["decl", n, "optn", ["nil"] if rng.chance(1, 2) else ["i", rng.range(0, 9)]])
        else:
            prog.append(["decl", n, "opt", ["i", rng.range(0, 9)]])
        top.own[n] = t
    if not g.of_type(top, "int"):
        n = g.name("g")
        prog.append(["decl", n, "int", ["i", rng.range(0, 9)]])
        top.own[n] = "int"
    # units
    units = rng.range(1, 3)
    factories = []      # (name, kind)
    classes = []
    for _ in range(units):
        kind = rng.weighted([("closure", 4), ("factory", 4), ("factory_list", 2), ("method", 2)])
        if kind == "closure":
            n = g.name("c")
            sc = Scope(top)
            sc.own["d"] = "int"
            prog.append(["def", n, [["d", "int"]], "int", g.body(sc, 1, "int")])
            top.own[n] = "fn1"
        elif kind in ("factory", "factory_list"):
            n = g.name("mk")
            sc = Scope(top)
            sc.own["p"] = "int"
            ret = "fn1" if kind == "factory" else "fnlist"
            prog.append(["def", n, [["p", "int"]], ret, g.body(sc, 1, ret)])
            top.own[n] = "mk_" + ret
            factories.append((n, ret))
        else:
            cn = g.name("K")
            bare = rng.chance(1, 2)
            if bare:
                # the method (and the closures it creates) may name the field `v` of its object without `self.`: to them it
                # is a captured variable, shared with `ob.v` as the owner sees it
                fsc = Scope(top)
                fsc.own["v"] = "int"
                sc = Scope(fsc)
            else:
                sc = Scope(top)
            sc.own["p"] = "int"
            sc.own["fv"] = "int"
            ret = rng.choice(["fn1", "fnlist"])
            prog.append(["class", cn, ret, g.body(sc, 1, ret), bare])
            classes.append((cn, ret))
    # a module-level variable of function type that closures re-point (modify) and call
    holders = []
    if factories and rng.chance(1, 2):
        fn1_factories = [f for f, r in factories if r == "fn1"]
        if fn1_factories:
            fac = rng.choice(fn1_factories)
            cur, setn, usen = g.name("cur"), g.name("setcur"), g.name("usecur")
            prog.append(["decl", cur, "int", ["call", fac, [["i", rng.range(0, 9)]]]])
            prog.append(["def", setn, [["d", "int"]], "int", [["mod", cur, ["call", fac, [["v", "d"]]]], ["ret", ["v", "d"]]]])
            prog.append(["def", usen, [["d", "int"]], "int", [["ret", ["call", cur, [["v", "d"]]]]]])
            top.own[cur] = "fn1"
            top.own[setn] = "fn1"
            top.own[usen] = "fn1"
            holders.append((cur, setn, usen))
    # history
    nops = rng.range(4, max_ops)
    focus = rng.sample(["holder", "isclosure", "mklist", "mapcall", "filtcall", "repeat", "assign", "make", "remake", "new", "mcall",
                        "fetch", "pushlist", "assign_s", "tblset", "assign_optn", "fieldset", "fieldprint"], 3) if rng.chance(1, 2) else []
    hist = []
    objs = []
    made = []       # (variable, factory) pairs: variables that hold a factory product
    for _ in range(nops):
        fns = g.of_type(top, "fn1")
        lists = g.of_type(top, "fnlist")
        ints = g.of_type(top, "int")
        choices = [("printvar", 2)]
        if holders:
            choices.append(("holder", 4))
        if fns:
            choices += [("call", 8), ("isclosure", 1), ("mklist", 1), ("mapcall", 2), ("filtcall", 2), ("repeat", 1)]
        if ints:
            choices.append(("assign", 4))
        if factories:
            choices.append(("make", 5))
            if made:
                choices.append(("remake", 3))
        if classes:
            choices.append(("new", 2))
        if objs:
            choices.append(("mcall", 4))
            choices.append(("fieldset", 2))
            choices.append(("fieldprint", 2))
        if lists:
            choices.append(("fetch", 4))
        if g.of_type(top, "list"):
            choices.append(("pushlist", 1))
        if g.of_type(top, "str"):
            choices.append(("assign_s", 1))
        choices.append(("tblset", 2))
        if g.of_type(top, "optn"):
            choices.append(("assign_optn", 3))
        if focus:
            # swarm: this history concentrates on a few kinds of operation (calls always stay likely)
            choices = [(kk, w * 6 if kk in focus else w) for kk, w in choices]
        k = rng.weighted(choices)
        if k == "tblset":
            # an element of the table changes: variables that were assigned from it keep their values
            prog.append(["tblset", rng.below(3), ["i", rng.range(0, 9)]])
            continue
        if k == "assign_optn":
            n = rng.choice(g.of_type(top, "optn"))
            rhs = ["nil"] if rng.chance(1, 2) else ["i", rng.range(0, 9)]
            # (a plain `g = nil` does not type-check)
            prog.append(["optset", n, ["call", "feed", [["i", 5]]] if rhs == ["nil"] else rhs] if (rhs == ["nil"] or rng.chance(2, 3)) else ["set", n, rhs])
            continue
        if k == "call":
            f = rng.choice(fns)
            if rng.chance(1, 4):
                prog.append(["print", ["call", "app", [["v", f], ["i", rng.range(0, 9)]]]])
                prog_needs_app = True
            else:
                prog.append(["print", ["call", f, [["i", rng.range(0, 9)]]]])
        elif k == "holder":
            cur, setn, usen = rng.choice(holders)
            prog.append(["print", ["call", rng.choice([setn, usen, usen, cur]), [["i", rng.range(0, 9)]]]])
        elif k == "printvar":
            cands = ints + g.of_type(top, "str") + g.of_type(top, "list")
            if cands:
                prog.append(["print", ["v", rng.choice(cands)]])
        elif k == "assign":
            prog.append(["set", rng.choice(ints), ["%", g.int_expr(top, 1, prefer_captured=False), M]])
        elif k == "assign_s":
            n = rng.choice(g.of_type(top, "str"))
            prog.append(["set", n, ["cat", ["v", n], ["s", "q"]]])
        elif k == "pushlist":
            prog.append(["push", rng.choice(g.of_type(top, "list")), ["i", rng.range(0, 9)]])
        elif k == "make":
            fn, ret = rng.choice(factories)
            n = g.name("h" if ret == "fn1" else "l")
            prog.append(["decl", n, "int", ["call", fn, [["i", rng.range(0, 9)]]]])
            top.own[n] = ret
            made.append((n, fn))
        elif k == "remake":
            # an existing variable is re-assigned a product of another execution of the same factory
            n, fn = rng.choice(made)
            prog.append(["set", n, ["call", fn, [["i", rng.range(0, 9)]]]])
        elif k == "new":
            cn, ret = rng.choice(classes)
            n = g.name("ob")
            prog.append(["new", n, cn, ["i", rng.range(0, 9)]])
            objs.append((n, ret))
        elif k == "fieldset":
            prog.append(["fieldset", rng.choice(objs)[0], ["i", rng.range(0, 9)]])
        elif k == "fieldprint":
            prog.append(["fieldprint", rng.choice(objs)[0]])
        elif k == "mcall":
            on, ret = rng.choice(objs)
            n = g.name("h" if ret == "fn1" else "l")
            prog.append(["mcall", n, on, ["i", rng.range(0, 9)]])
            top.own[n] = ret
        elif k == "fetch":
            n = g.name("f")
            prog.append(["fetch", n, rng.choice(lists), rng.below(2)])
            top.own[n] = "fn1"
        elif k == "isclosure":
            prog.append(["isclosure", rng.choice(fns + ["idf"])])
        elif k == "repeat":
            prog.append(["repeat", rng.choice(fns), rng.choice([2, 3, 9, 17]), rng.range(0, 9)])
        elif k == "mapcall":
            prog.append(["mapcall", rng.choice(fns)])
        elif k == "filtcall":
            variant = 0 if (ints and rng.chance(1, 2)) else 1
            prog.append(["filtcall", g.name("pr"), rng.choice(fns), variant, rng.choice(ints) if ints else None, rng.range(0, 3)])
        elif k == "mklist":
            n = g.name("l")
            prog.append(["mklist", n, [rng.choice(fns), rng.choice(fns)]])
            top.own[n] = "fnlist"
    for on, _ in objs:
        prog.append(["fieldprint", on])
    # final observation of all module-level data variables
    for n, t in sorted(top.own.items()):
        if t in ("int", "str", "list", "opt", "optn") and n != "tbl":
            prog.append(["print", ["v", n]])
    return {"prog": prog}


APP = ["def", "app", [["f", "fn1"], ["a", "int"]], "int", [["ret", ["+", ["call", "f", [["v", "a"]]], ["i", 1]]]]]


def uses_app(prog):
    import json
    return '"app"' in json.dumps(prog)


def has_shadow(stmts):
    import json
    return '["shadow"' in json.dumps(stmts)


def render(spec):
    prog = list(spec["prog"])
    if uses_app(prog):
        # insert the applier after the prologue
        prog.insert(3, APP)
    em = Emitter()
    render_block(prog, em)
    m = Model()
    fr = Frame({})
    try:
        m.block(prog, fr)
    except (KeyError, IndexError, TypeError, AttributeError) as e:
        # an ill-formed spec (possible after shrinking): expected output unknown -> mark invalid
        return em.program(), [("exact", "<<invalid spec: %r>>" % (e,))], None, False
    return em.program(), [("exact", o) for o in m.out], None, False


def shrink(spec):
    prog = spec["prog"]
    for i in range(len(prog) - 1, 2, -1):
        yield {"prog": prog[:i] + prog[i + 1:]}
    # shrink inside function bodies
    for i, s in enumerate(prog):
        if i < 3:
            continue      # the prologue helpers stay as they are
        if s[0] == "def" and len(s[4]) > 1:
            for j in range(len(s[4]) - 1):
                c = list(s)
                c[4] = s[4][:j] + s[4][j + 1:]
                yield {"prog": prog[:i] + [c] + prog[i + 1:]}
        if s[0] == "class" and len(s[3]) > 1:
            for j in range(len(s[3]) - 1):
                c = list(s)
                c[3] = s[3][:j] + s[3][j + 1:]
                yield {"prog": prog[:i] + [c] + prog[i + 1:]}
