"""Lists and maps (C13): operation histories over containers and their aliases, with a
Python sequence / finite-map reference model executed in lock-step with program emission.

An op refers to variables by name; an op whose operands do not exist (after shrinking) or do not
fit is skipped by the interpreter, so every sub-sequence of a history is again a history."""
from .base import Emitter, Stop, fmt_value, lit

INTS = [0, 1, 2, 3, 5, 7, -1, -4, 10, 12]
STRS = ["a", "b c", "dd", "é", "x", ""]
SKEYS = ["a", "b c", "k", "é"]
IKEYS = [0, 1, -1, 7]
LIST_T = ["li", "ls", "lo", "ln", "lb", "lg"]
BIGS = [0, 5, 7, -3, 99999999999, -99999999999]
MAP_T = ["msi", "mis", "msl", "mbs", "mso", "mii"]
TYPE_SRC = {"li": "[int...]", "ls": "[str...]", "lo": "[int?...]", "ln": "[[int...]...]",
            "msi": "map[str, int]", "mis": "map[int, str]", "msl": "map[str, [int...]]", "mbs": "map[bool, str]", "mso": "map[str, int?]", "mii": "map[int, int]",
            "lb": "[bool...]", "lg": "[bigint...]"}

CALLBACKS = {
    # name: (param type, result type, source body, python model taking (x, state) -> result)
    "cb_dbl": ("li", "li", "fn(x: int) -> int {\n\tmodify cnt = cnt + 1\n\tglog.push(x)\n\treturn x * 2 + cnt\n}"),
    "cb_str": ("li", "ls", "fn(x: int) -> str {\n\treturn \"s\" + x\n}"),
    "cb_big": ("li", "filter", "fn(x: int) -> bool {\n\tmodify cnt = cnt + 10\n\treturn x > 1\n}"),
    "cb_len": ("ls", "li", "fn(x: str) -> int {\n\tglog.push(x.len())\n\treturn x.len()\n}"),
    "cb_short": ("ls", "filter", "fn(x: str) -> bool {\n\treturn x.len() < 2\n}"),
    "cb_nil": ("lo", "filter", "fn(x: int?) -> bool {\n\tmodify cnt = cnt + 1\n\treturn x == nil\n}"),
    "cb_sz": ("ln", "li", "fn(x: [int...]) -> int {\n\tglog.push(x.len())\n\treturn x.len() + cnt\n}"),
    "cb_nonempty": ("ln", "filter", "fn(x: [int...]) -> bool {\n\treturn x.len() > 0\n}"),
    # callbacks whose result is an element read of another list: the value, not a view, must reach map/filter
    "cb_view": ("li", "li", "fn(x: int) -> int {\n\treturn gsrc[0]\n}"),
    "cb_flag": ("li", "filter", "fn(x: int) -> bool {\n\treturn gflags[0]\n}"),
}


def idx(i):
    """Source text of an index: a negative literal index is rejected at compile time, so the
    run-time path is reached through a variable."""
    return "ineg" if i == -1 else lit(i)


def elit(t, v):
    """Source literal of an element of a container of type t."""
    if t == "lg":
        return "B%d" % v if v >= 0 else "(B0 - B%d)" % -v      # `-B3` is typed int by the compiler
    return lit(v)


class Obj:
    def __init__(self, t, data):
        self.t = t
        self.data = data


def slen(s):
    return len(s.encode())


class Interp:
    def __init__(self):
        self.em = Emitter()
        self.vars = {}          # name -> Obj
        self.order = []         # declaration order
        self.cnt = 0
        self.glog = Obj("li", [])
        self.defined = set()
        self.plain = set()      # variables whose static type is a declared list type (not the result of map/filter)
        self.n = 0
        self.em.code("cnt = 0")
        self.em.code("glog: [int...] = []")
        self.em.code("ineg = 0 - 1")
        self.em.code("gsrc: [int...] = [10, 20]\ngflags: [bool...] = [true, false]")
        self.gsrc = [10, 20]
        self.gflags = [True, False]

    # ----------------------------------------------------------- rendering
    def render(self, o, nested=False):
        if o.t == "ln":
            return "[" + ", ".join(self.render(x, True) for x in o.data) + "]"
        if o.t in LIST_T:
            return fmt_value(o.data, True) if True else ""
        raise ValueError

    def observe_var(self, name):
        o = self.vars[name]
        self.em.code("print %s" % name)
        if o.t == "msl":
            items = ["%s: %s" % (fmt_value(k, True), fmt_value(v.data, True)) for k, v in o.data.items()]
            self.em.out_set("{", items, "}")
        elif o.t in MAP_T:
            items = ["%s: %s" % (fmt_value(k, True), fmt_value(v, True)) for k, v in o.data.items()]
            self.em.out_set("{", items, "}")
            if o.t == "mso":
                for kk in SKEYS[:2]:
                    self.em.code("print %s.contains_key(%s)" % (name, lit(kk)))
                    self.em.out("true" if kk in o.data else "false")
        else:
            self.em.out(self.render(o))

    def observe_all(self):
        for name in self.order:
            self.observe_var(name)
        self.em.code("print glog")
        self.em.out(fmt_value(self.glog.data, True))
        self.em.code("print cnt")
        self.em.out(str(self.cnt))

    def fresh(self, t, obj):
        name = "v%d" % self.n
        self.n += 1
        self.vars[name] = obj
        self.order.append(name)
        return name

    def src_of(self, o):
        """Source literal producing a fresh container equal to o (nested inner lists fresh as well)."""
        if o.t == "ln":
            return "[" + ", ".join(lit(x.data) for x in o.data) + "]"
        if o.t == "lg":
            return "[" + ", ".join(elit("lg", x) for x in o.data) + "]"
        return lit(o.data)

    def need_cb(self, name):
        if name not in self.defined:
            self.defined.add(name)
            self.em.code("%s = %s" % (name, CALLBACKS[name][2]))

    def call_cb(self, name, x):
        """Python model of the callbacks (x is an element: int / str / None / Obj)."""
        if name == "cb_dbl":
            self.cnt += 1
            self.glog.data.append(x)
            return x * 2 + self.cnt
        if name == "cb_str":
            return "s" + str(x)
        if name == "cb_big":
            self.cnt += 10
            return x > 1
        if name == "cb_len":
            self.glog.data.append(slen(x))
            return slen(x)
        if name == "cb_short":
            return slen(x) < 2
        if name == "cb_nil":
            self.cnt += 1
            return x is None
        if name == "cb_sz":
            self.glog.data.append(len(x.data))
            return len(x.data) + self.cnt
        if name == "cb_nonempty":
            return len(x.data) > 0
        if name == "cb_view":
            return self.gsrc[0]
        if name == "cb_flag":
            return self.gflags[0]
        raise ValueError(name)

    # ----------------------------------------------------------------- ops
    def apply(self, op):
        """Apply one op: emit its statement(s) and expected output.  Returns False if the op is not
        applicable in the current state (it is then skipped, nothing is emitted)."""
        k = op["op"]
        em = self.em
        V = self.vars
        if k == "bulk":
            # many elements at once (growth of the backing storage, rehashing)
            a = V.get(op.get("a"))
            n_ = op["n"]
            if a is None:
                return False
            an = op["a"]
            if a.t == "li":
                em.code("from 0 to %d, bi {\n\t%s.push(bi * 3)\n}" % (n_, an))
                a.data.extend(i * 3 for i in range(n_))
                em.code("print %s.len()" % an)
                em.out(str(len(a.data)))
                if len(a.data) > 260:
                    # literal (compile-time constant) indexes beyond one byte
                    for q in (255, 256, 257, len(a.data) - 1):
                        em.code("print %s[%d]" % (an, q))
                        em.out(str(a.data[q]))
                    em.code("%s[258] = 5\n%s[259] += 1" % (an, an))
                    a.data[258] = 5
                    a.data[259] += 1
                return True
            if a.t == "mis":
                em.code("from 0 to %d, bi {\n\t%s[bi + 100] = \"b\" + bi\n}" % (n_, an))
                for i in range(n_):
                    a.data[i + 100] = "b%d" % i
                em.code("print %s.len()" % an)
                em.out(str(len(a.data)))
                em.code("print %s[%d]" % (an, 100 + n_ - 1))
                em.out("b%d" % (n_ - 1))
                return True
            return False
        if k == "src_bump":
            # the source the view-returning callbacks read from changes afterwards
            em.code("gsrc[0] += 1\ngflags[0] = !gflags[0]")
            self.gsrc[0] += 1
            self.gflags[0] = not self.gflags[0]
            return True
        if k == "new":
            t = op["t"]
            if t == "ln":
                obj = Obj("ln", [Obj("li", list(x)) for x in op["init"]])
            elif t == "msl":
                obj = Obj(t, {})
            elif t in MAP_T:
                obj = Obj(t, dict((kk, vv) for kk, vv in op["init"]))      # a repeated key: the last entry wins
            else:
                obj = Obj(t, list(op["init"]))
            name = self.fresh(t, obj)
            self.plain.add(name)
            if t == "mso":
                # (a map literal with optional values does not accept plain ints: fill it by assignments)
                em.code("%s = %s" % (name, TYPE_SRC[t]))
                for kk, vv in obj.data.items():
                    em.code("%s[%s] = %s" % (name, lit(kk), lit(vv)))
            elif t in MAP_T:
                if obj.data:
                    parts = []
                    for q, (kk, vv) in enumerate(op["init"]):
                        if t == "msi" and q == 0 and sum(1 for x in op["init"] if x[0] == kk) > 1:
                            # the first of two equal keys is spelled through a variable: equal only at run time
                            em.code("kdup%d = %s" % (self.n, lit(kk)))
                            parts.append("kdup%d: %s" % (self.n, lit(vv)))
                        else:
                            parts.append("%s: %s" % (lit(kk), lit(vv)))
                    em.code("%s = %s {%s}" % (name, TYPE_SRC[t], ", ".join(parts)))
                else:
                    em.code("%s = %s" % (name, TYPE_SRC[t]))
            else:
                em.code("%s: %s = %s" % (name, TYPE_SRC[t], self.src_of(obj)))
            return True
        a = V.get(op.get("a"))
        if a is None:
            return False
        an = op["a"]
        if k == "new_from":
            # a literal whose elements are index reads of another list: values are copied, not shared
            if a.t != "li" or not a.data:
                return False
            i = op["i"] % len(a.data)
            if op["t"] == "li":
                name = self.fresh("li", Obj("li", [a.data[i], op["v"]]))
                em.code("%s: [int...] = [%s[%d], %s]" % (name, an, i, lit(op["v"])))
            else:
                name = self.fresh("msi", Obj("msi", {op["k"]: a.data[i]}))
                em.code("%s = map[str, int] {%s: %s[%d]}" % (name, lit(op["k"]), an, i))
            return True
        if k == "cap_call":
            # a closure that captured the container itself (not a parameter) updates it
            cname = "c_" + an
            if a.t == "li":
                if not a.data:
                    return False
                if cname not in self.defined:
                    self.defined.add(cname)
                    em.code("%s = fn(q: int) -> int {\n\t%s.push(q)\n\t%s[0] += 1\n\treturn %s.len() + %s[0]\n}" % (cname, an, an, an, an))
                em.code("print %s(%s)" % (cname, lit(op["v"])))
                a.data.append(op["v"])
                a.data[0] += 1
                em.out(str(len(a.data) + a.data[0]))
                return True
            if a.t == "mis":
                # constant int key into a captured map, inside the closure
                if cname not in self.defined:
                    self.defined.add(cname)
                    em.code("%s = fn(r: str) -> int {\n\t%s[7] = r\n\t%s[7] += \"!\"\n\tprint %s[1]\n\treturn %s.len()\n}" % (cname, an, an, an, an))
                r = op["v"] if isinstance(op.get("v"), str) else STRS[int(op.get("v") or 0) % len(STRS)]
                em.code("print %s(%s)" % (cname, lit(r)))
                a.data[7] = r + "!"
                em.out(fmt_value(a.data.get(1)))
                em.out(str(len(a.data)))
                return True
            if a.t == "msi":
                if cname not in self.defined:
                    self.defined.add(cname)
                    em.code("%s = fn(q: str, r: int) -> int {\n\t%s[q] = r\n\t%s[q] += 1\n\treturn %s.len()\n}" % (cname, an, an, an))
                em.code("print %s(%s, %s)" % (cname, lit(op["k"]), lit(op["v"])))
                a.data[op["k"]] = op["v"] + 1
                em.out(str(len(a.data)))
                return True
            return False
        if k == "alias":
            name = self.fresh(a.t, a)
            if an in self.plain:
                self.plain.add(name)
            em.code("%s = %s" % (name, an))
            return True
        if k == "clone":
            if a.t in ("ln", "msl"):
                return False
            name = self.fresh(a.t, Obj(a.t, a.data.copy()))
            em.code("%s = %s.clone()" % (name, an))
            return True
        if k == "len":
            em.code("print %s.len()" % an)
            em.out(str(len(a.data)))
            return True
        if k == "clear":
            em.code("%s.clear()" % an)
            a.data.clear()
            return True
        if a.t in LIST_T:
            return self.apply_list(op, a, an)
        return self.apply_map(op, a, an)

    def elem_ok(self, t, v):
        if t == "li":
            return isinstance(v, int) and not isinstance(v, bool)
        if t == "ls":
            return isinstance(v, str)
        if t == "lo":
            return v is None or (isinstance(v, int) and not isinstance(v, bool))
        if t == "lb":
            return isinstance(v, bool)
        if t == "lg":
            return isinstance(v, int) and not isinstance(v, bool)
        return False

    def apply_list(self, op, a, an):
        k = op["op"]
        em = self.em
        n = len(a.data)
        if k == "push":
            if a.t == "ln":
                b = self.vars.get(op.get("b"))
                if b is not None and b.t == "li":
                    em.code("%s.push(%s)" % (an, op["b"]))      # shares the inner list
                    a.data.append(b)
                else:
                    inner = Obj("li", list(op.get("v") or []))
                    if not all(isinstance(x, int) for x in inner.data):
                        return False
                    if not inner.data:
                        return False
                    em.code("%s.push(%s)" % (an, lit(inner.data)))
                    a.data.append(inner)
                return True
            if not self.elem_ok(a.t, op.get("v")):
                return False
            em.code("%s.push(%s)" % (an, elit(a.t, op["v"])))
            a.data.append(op["v"])
            return True
        if k == "push_from":
            b = self.vars.get(op.get("b"))
            if a.t == "lo" and b is not None and b.t == "li" and b.data:
                # the pushed element is the optional another container call handed back; the list is then searched for
                # the plain value (and for nil)
                v = b.data[op["i"] % len(b.data)] if op["i"] % 3 else op.get("v", 0)
                em.code("%s.push(%s.index_of(%s))" % (an, op["b"], lit(v)))
                found = b.data.index(v) if v in b.data else None
                a.data.append(found)
                for needle in (found, None, 0):
                    em.code("print %s.index_of(%s)" % (an, lit(needle)))
                    em.out(str(a.data.index(needle)) if needle in a.data else "nil")
                return True
            if a.t != "li" or b is None or b.t != "li" or not b.data:
                return False
            i = op["i"] % len(b.data)
            em.code("%s.push(%s[%d])" % (an, op["b"], i))
            a.data.append(b.data[i])
            if op.get("v", 1) % 2 == 0 and op.get("b") in self.plain and op.get("a") in self.plain:
                # (element types of map/filter results trip a typing quirk of the compiler, hence `plain`)
                # the argument (or the index) of further operations is an element read written inline - a view into a list,
                # possibly into the very list the operation works on
                em.code("print %s.index_of(%s[%d])" % (an, op["b"], i))
                em.out(str(a.data.index(b.data[i])))
                x = b.data[i]
                if 0 <= x < len(a.data):
                    em.code("%s[%s[%d]] += %s[%d]" % (an, op["b"], i, op["b"], i))
                    a.data[x] = a.data[x] + x
                x = b.data[i]
                if 0 <= x < len(a.data):
                    em.code("print %s.remove(%s[%d])" % (an, op["b"], i))
                    em.out(str(a.data.pop(x)))
            return True
        if k == "push_fn":
            if a.t != "li" or not self.elem_ok("li", op.get("v")):
                return False
            if "h_push" not in self.defined:
                self.defined.add("h_push")
                em.code("h_push = fn(p: [int...], q: int) {\n\tp.push(q)\n\tp[0] += 1\n}")
            em.code("h_push(%s, %s)" % (an, lit(op["v"])))
            a.data.append(op["v"])
            a.data[0] += 1
            return True
        if k in ("read", "concat", "bind"):
            i = op["i"]
            if k == "concat" and a.t not in ("li", "ls"):
                return False
            if k == "bind" and a.t != "ln":
                return False
            if k == "bind":
                if i < 0 or i >= n:
                    em.code("w%d: [int...] = %s[%s]" % (self.n, an, idx(i)))
                    raise Stop("index %d out of range (len %d)" % (i, n))
                name = self.fresh("li", a.data[i])
                em.code("%s: [int...] = %s[%s]" % (name, an, idx(i)))
                return True
            stmt = "print %s[%s]" % (an, idx(i)) if k == "read" else 'print "<" + %s[%s] + ">"' % (an, idx(i))
            em.code(stmt)
            if i < 0 or i >= n:
                raise Stop("index %d out of range (len %d)" % (i, n))
            x = a.data[i]
            if k == "read":
                em.out(self.render(x) if a.t == "ln" else fmt_value(x))
            else:
                em.out("<" + fmt_value(x) + ">")
            return True
        if k == "write":
            i, v = op["i"], op.get("v")
            if a.t == "ln" or not self.elem_ok(a.t, v):
                return False
            em.code("%s[%s] = %s" % (an, idx(i), elit(a.t, v)))
            if i < 0 or i >= n:
                raise Stop("index assignment %d out of range (len %d)" % (i, n))
            a.data[i] = v
            return True
        if k == "opassign":
            i, v = op["i"], op.get("v")
            if a.t not in ("li", "ls", "lg") or not self.elem_ok(a.t, v):
                return False
            sym = op.get("sym", "+")
            if a.t == "ls" and sym != "+":
                return False
            if sym in ("/", "%") and v == 0:
                return False
            rhs = elit(a.t, v)
            b = self.vars.get(op.get("b")) if op.get("b") else None
            if a.t == "li" and op.get("rhs") == "sum":
                # the right-hand side is itself an expression that needs temporaries
                rhs = "(%s + gsrc.len())" % elit("li", v - 2)
            elif a.t == "li" and op.get("rhs") == "idx" and b is not None and b.t == "li" and b.data and op.get("b") in self.plain and sym in ("+", "-", "*"):
                j = op.get("j", 0) % len(b.data)
                jv = "jv%d" % self.n
                self.n += 1
                em.code("%s = %d" % (jv, j))
                rhs = "%s[%s]" % (op["b"], jv)
                v = b.data[j]
            em.code("%s[%s] %s= %s" % (an, idx(i), sym, rhs))
            if i < 0 or i >= n:
                raise Stop("index op-assignment %d out of range (len %d)" % (i, n))
            x = a.data[i]
            if sym == "+":
                a.data[i] = x + v
            elif sym == "-":
                a.data[i] = x - v
            elif sym == "*":
                a.data[i] = x * v
            elif sym == "/":
                a.data[i] = int(x / v)            # truncating division
            elif sym == "%":
                a.data[i] = x - v * int(x / v)    # remainder takes the dividend's sign
            else:
                return False
            return True
        if k == "unary_read":
            # an element read used directly under a unary operator / as a condition
            i = op["i"]
            if an not in self.plain:
                return False      # (the compiler rejects `-ys[0]` when ys is the result of map: a typing quirk, not this property)
            if a.t in ("li", "lg"):
                em.code("print -%s[%s]" % (an, idx(i)))
                if i < 0 or i >= n:
                    raise Stop("index %d out of range (len %d)" % (i, n))
                em.out(str(-a.data[i]))
                return True
            if a.t == "lb":
                em.code("print !%s[%s]" % (an, idx(i)))
                if i < 0 or i >= n:
                    raise Stop("index %d out of range (len %d)" % (i, n))
                em.out("false" if a.data[i] else "true")
                em.code("if %s[%s] && true {\n\tprint \"y\"\n} else {\n\tprint \"n\"\n}" % (an, idx(i)))
                em.out("y" if a.data[i] else "n")
                return True
            return False
        if k == "chain2":
            if a.t != "ln" or not a.data:
                return False
            i = op["i"] % len(a.data)
            inner = a.data[i]
            if not inner.data:
                return False
            j = op["j"] % len(inner.data)
            em.code("print %s[%d][%d]" % (an, i, j))
            em.out(str(inner.data[j]))
            em.code("%s[%d][%d] = %d" % (an, i, j, op["v"]))
            inner.data[j] = op["v"]
            return True
        if k == "tmp_nest":
            # a temporary outer list that holds this list dies inside a helper; the inner list lives on
            if a.t != "li":
                return False
            if "h_nest" not in self.defined:
                self.defined.add("h_nest")
                em.code("h_nest = fn(p: [int...]) -> int {\n\tt: [[int...]...] = [p, p]\n\tu = map[str, int] {\"k\": p.len()}\n\treturn t.len() + u.len()\n}")
            em.code("print h_nest(%s)" % an)
            em.out("3")
            return True
        if k == "filter_len":
            # the list returned by filter is dropped at once; the inner lists it shared with the receiver live on
            if a.t != "ln":
                return False
            self.need_cb("cb_nonempty")
            em.code("print %s.filter(cb_nonempty).len()" % an)
            em.out(str(sum(1 for x in a.data if self.call_cb("cb_nonempty", x))))
            return True
        if k == "remove":
            i = op["i"]
            em.code("print %s.remove(%s)" % (an, idx(i)))
            if i < 0 or i >= n:
                raise Stop("removal index %d out of range (len %d)" % (i, n))
            x = a.data.pop(i)
            em.out(self.render(x) if a.t == "ln" else fmt_value(x))
            return True
        if k == "reverse":
            em.code("%s.reverse()" % an)
            a.data.reverse()
            return True
        if k == "index_of":
            v = op.get("v")
            if a.t == "ln" or not self.elem_ok(a.t, v):
                return False
            em.code("print %s.index_of(%s)" % (an, elit(a.t, v)))
            em.out(str(a.data.index(v)) if v in a.data else "nil")
            return True
        if k == "eq":
            b = self.vars.get(op.get("b"))
            if b is None or b.t != a.t:
                return False
            em.code("print %s == %s" % (an, op["b"]))
            em.out("true" if self.deep(a) == self.deep(b) else "false")
            return True
        if k == "join":
            b = self.vars.get(op.get("b"))
            if b is None or b.t != a.t:
                return False
            name = self.fresh(a.t, a)
            em.code("%s = %s.join(%s)" % (name, an, op["b"]))
            a.data.extend(list(b.data))       # a becomes a ++ b (b may be an alias of a); b keeps its contents
            return True
        if k in ("map", "filter"):
            cb = op["cb"]
            if cb not in CALLBACKS or CALLBACKS[cb][0] != a.t:
                return False
            is_filter = CALLBACKS[cb][1] == "filter"
            if (k == "filter") != is_filter:
                return False
            self.need_cb(cb)
            snapshot = list(a.data)
            if is_filter:
                res = [x for x in snapshot if self.call_cb(cb, x)]
                name = self.fresh(a.t, Obj(a.t, res))
                em.code("%s = %s.filter(%s)" % (name, an, cb))
            else:
                res = [self.call_cb(cb, x) for x in snapshot]
                rt = CALLBACKS[cb][1]
                name = self.fresh(rt, Obj(rt, res))
                em.code("%s = %s.map(%s)" % (name, an, cb))
            return True
        return False

    def deep(self, o):
        if o.t == "ln":
            return [list(x.data) for x in o.data]
        return list(o.data)

    def apply_msl(self, op, a, an):
        """map[str, [int...]]: the values are lists shared with whoever else holds them."""
        k = op["op"]
        em = self.em
        key = op.get("k")
        if k in ("mwrite", "mread", "mremove", "contains", "mget", "chain") and not isinstance(key, str):
            return False
        if k == "mwrite":
            b = self.vars.get(op.get("b"))
            if b is not None and b.t == "li":
                em.code("%s[%s] = %s" % (an, lit(key), op["b"]))       # shares the list
                a.data[key] = b
            else:
                v = [x for x in (op.get("lv") or [1]) if isinstance(x, int)]
                if not v:
                    return False
                em.code("%s[%s] = %s" % (an, lit(key), lit(v)))
                a.data[key] = Obj("li", list(v))
            return True
        if k == "mread":
            em.code("print %s[%s]" % (an, lit(key)))
            em.out(fmt_value(a.data[key].data, True) if key in a.data else "nil")
            return True
        if k == "mget":
            if key not in a.data:
                return False
            name = self.fresh("li", a.data[key])
            em.code("%s = get %s[%s]" % (name, an, lit(key)))
            return True
        if k == "mremove":
            em.code("print %s.remove(%s)" % (an, lit(key)))
            o = a.data.pop(key, None)
            em.out(fmt_value(o.data, True) if o is not None else "nil")
            return True
        if k == "contains":
            em.code("print %s.contains_key(%s)" % (an, lit(key)))
            em.out("true" if key in a.data else "false")
            return True
        if k == "chain":
            # chained index through the map into the inner list, in one expression
            if key not in a.data or not a.data[key].data:
                return False
            inner = a.data[key]
            j = op["i"] % len(inner.data)
            em.code("print %s[%s][%d]" % (an, lit(key), j))
            em.out(str(inner.data[j]))
            em.code("%s[%s][%d] = %d" % (an, lit(key), j, op["v"]))
            inner.data[j] = op["v"]
            em.code("%s[%s][%d] += 2" % (an, lit(key), j))
            inner.data[j] += 2
            return True
        if k == "values":
            # the list returned by values() is a temporary that shares the inner lists
            em.code("print %s.values().len()" % an)
            em.out(str(len(a.data)))
            return True
        if k == "keys":
            em.code("print %s.keys()" % an)
            em.out_set("[", [fmt_value(x, True) for x in a.data.keys()], "]")
            return True
        return False

    def apply_map(self, op, a, an):
        if a.t == "msl":
            return self.apply_msl(op, a, an)
        k = op["op"]
        em = self.em
        if a.t == "mbs":
            kt_ok = lambda x: isinstance(x, bool)
        elif a.t in ("msi", "mso"):
            kt_ok = lambda x: isinstance(x, str)
        else:
            kt_ok = lambda x: isinstance(x, int) and not isinstance(x, bool)
        vt_ok = (lambda x: isinstance(x, int) and not isinstance(x, bool)) if a.t == "msi" else (lambda x: isinstance(x, str))
        if a.t == "mii":
            vt_ok = lambda x: isinstance(x, int) and not isinstance(x, bool)
        if a.t == "mso":
            # optional values: a key present with value nil is still a key of the map
            vt_ok = lambda x: x is None or (isinstance(x, int) and not isinstance(x, bool))
        key = op.get("k")
        if k in ("mread", "mwrite", "mopassign", "replace", "mremove", "contains") and not kt_ok(key):
            return False
        if k == "mread":
            em.code("print %s[%s]" % (an, lit(key)))
            em.out(fmt_value(a.data.get(key)))
            return True
        if k == "mwrite":
            if not vt_ok(op.get("v")):
                return False
            em.code("%s[%s] = %s" % (an, lit(key), lit(op["v"])))
            a.data[key] = op["v"]
            return True
        if k == "mself":
            # the key of the assignment is itself read out of the same map: m[m[k]] = v
            if a.t != "mii" or not kt_ok(key) or key not in a.data or not vt_ok(op.get("v")):
                return False
            k2 = a.data[key]
            if op["v"] in (0, 7):
                # ... or the argument of a built-in: m.remove(m[k]), m.replace(m[k], v), m.contains_key(m[k]), m[m[k]]
                var = op.get("i", 0) % 4
                if var == 0:
                    em.code("print %s.remove(%s[%s])" % (an, an, lit(key)))
                    em.out(fmt_value(a.data.pop(k2, None)))
                elif var == 1:
                    em.code("print %s.replace(%s[%s], %s)" % (an, an, lit(key), lit(op["v"])))
                    em.out(fmt_value(a.data.get(k2)))
                    a.data[k2] = op["v"]
                elif var == 2:
                    em.code("print %s.contains_key(%s[%s])" % (an, an, lit(key)))
                    em.out("true" if k2 in a.data else "false")
                else:
                    em.code("print %s[%s[%s]]" % (an, an, lit(key)))
                    em.out(fmt_value(a.data.get(k2)))
                return True
            if op.get("i", 0) % 2 and k2 in a.data:
                em.code("%s[%s[%s]] += %s" % (an, an, lit(key), lit(op["v"])))
                a.data[k2] = a.data[k2] + op["v"]
            else:
                em.code("%s[%s[%s]] = %s" % (an, an, lit(key), lit(op["v"])))
                a.data[k2] = op["v"]
            return True
        if k == "mwrite_from":
            b = self.vars.get(op.get("b"))
            if a.t != "msi" or not kt_ok(key) or b is None or b.t != "li" or not b.data:
                return False
            i = op["i"] % len(b.data)
            em.code("%s[%s] = %s[%d]" % (an, lit(key), op["b"], i))
            a.data[key] = b.data[i]
            return True
        if k == "mwrite_keyfrom":
            # the key is itself read out of another container
            b = self.vars.get(op.get("b"))
            if b is None or not b.data or op.get("b") not in self.plain:
                return False      # (element types of map/filter results trip a typing quirk of the compiler)
            i = op["i"] % len(b.data)
            if a.t == "mis" and b.t == "li" and vt_ok(op.get("v")):
                em.code("%s[%s[%d]] = %s" % (an, op["b"], i, lit(op["v"])))
                a.data[b.data[i]] = op["v"]
                em.code("print %s.contains_key(%s)" % (an, lit(b.data[i])))
                em.out("true")
                return True
            if a.t == "msi" and b.t == "ls":
                kk = b.data[i]
                if kk in a.data:
                    em.code("%s[%s[%d]] += 1" % (an, op["b"], i))
                    a.data[kk] += 1
                else:
                    em.code("%s[%s[%d]] = 1" % (an, op["b"], i))
                    a.data[kk] = 1
                em.code("print %s[%s]" % (an, lit(kk)))
                em.out(str(a.data[kk]))
                return True
            return False
        if k == "mwrite_fn":
            if a.t != "msi" or not kt_ok(key) or not vt_ok(op.get("v")):
                return False
            if "h_put" not in self.defined:
                self.defined.add("h_put")
                em.code("h_put = fn(p: map[str, int], q: str, r: int) {\n\tp[q] = r\n}")
            em.code("h_put(%s, %s, %s)" % (an, lit(key), lit(op["v"])))
            a.data[key] = op["v"]
            return True
        if k == "mopassign":
            if key not in a.data or not vt_ok(op.get("v")) or a.t == "mso":
                return False
            em.code("%s[%s] += %s" % (an, lit(key), lit(op["v"])))
            a.data[key] = a.data[key] + op["v"]
            return True
        if k == "replace":
            if not vt_ok(op.get("v")):
                return False
            em.code("print %s.replace(%s, %s)" % (an, lit(key), lit(op["v"])))
            em.out(fmt_value(a.data.get(key)))
            a.data[key] = op["v"]
            return True
        if k == "mremove":
            em.code("print %s.remove(%s)" % (an, lit(key)))
            em.out(fmt_value(a.data.pop(key, None)))
            return True
        if k == "contains":
            em.code("print %s.contains_key(%s)" % (an, lit(key)))
            em.out("true" if key in a.data else "false")
            return True
        if k == "keys":
            em.code("print %s.keys()" % an)
            em.out_set("[", [fmt_value(x, True) for x in a.data.keys()], "]")
            return True
        if k == "values":
            em.code("print %s.values()" % an)
            em.out_set("[", [fmt_value(x, True) for x in a.data.values()], "]")
            return True
        if k == "pairs":
            em.code("print %s.pairs()" % an)
            em.out_set("[", ["[%s, %s]" % (fmt_value(x, True), fmt_value(y, True)) for x, y in a.data.items()], "]")
            return True
        if k == "keys_len":
            # the list returned by keys() is a fresh list: mutating it does not change the map
            name = "t%d" % self.n
            self.n += 1
            em.code("%s = %s.keys()\nprint %s.len()\n%s.clear()\nprint %s.len()" % (name, an, name, name, an))
            em.out(str(len(a.data)))
            em.out(str(len(a.data)))
            return True
        return False


# ----------------------------------------------------------------- generation

def pick_index(rng, n):
    return rng.weighted([(-1, 1), (0, 4), (n - 1, 4), (n, 2), (rng.range(0, max(0, n - 1)), 6), (n + 1, 1)])


LIST_KINDS = [("push", 6), ("remove", 4), ("read", 4), ("write", 4), ("opassign", 3), ("reverse", 2), ("join", 2),
              ("clear", 1), ("clone", 2), ("alias", 3), ("map", 3), ("filter", 3), ("index_of", 3), ("len", 2),
              ("eq", 2), ("concat", 2), ("bind", 2), ("push_fn", 1), ("new_from", 2), ("cap_call", 2), ("push_from", 2),
              ("tmp_nest", 2), ("filter_len", 2), ("unary_read", 2), ("chain2", 2)]
MAP_KINDS = [("mwrite", 6), ("mread", 4), ("mopassign", 3), ("replace", 3), ("mremove", 3), ("contains", 3), ("len", 2),
             ("keys", 2), ("values", 2), ("pairs", 2), ("clear", 1), ("clone", 2), ("alias", 3), ("keys_len", 1),
             ("mwrite_fn", 1), ("cap_call", 2), ("mwrite_from", 1), ("mwrite_keyfrom", 2), ("mself", 2)]
LIST_KIND_NAMES = [k for k, _ in LIST_KINDS]
MAP_KIND_NAMES = [k for k, _ in MAP_KINDS]


def gen_op(rng, it):
    names = list(it.order)
    lists = [x for x in names if it.vars[x].t in LIST_T]
    maps = [x for x in names if it.vars[x].t in MAP_T]
    if not names or (len(names) < 3 and rng.chance(1, 3)):
        t = rng.weighted([("li", 4), ("ls", 2), ("lo", 2), ("ln", 2), ("msi", 3), ("mis", 2), ("msl", 2), ("lb", 1), ("lg", 1), ("mbs", 1), ("mso", 2), ("mii", 2)])
        if t == "li":
            init = [rng.choice(INTS) for _ in range(rng.range(0, 4))]
        elif t == "ls":
            init = [rng.choice(STRS) for _ in range(rng.range(0, 3))]
        elif t == "lo":
            init = [rng.choice(INTS + [None, None]) for _ in range(rng.range(0, 4))]
        elif t == "ln":
            init = [[rng.choice(INTS) for _ in range(rng.range(1, 3))] for _ in range(rng.range(0, 3))]
        elif t == "lb":
            init = [rng.chance(1, 2) for _ in range(rng.range(0, 3))]
        elif t == "lg":
            init = [rng.choice(BIGS) for _ in range(rng.range(0, 3))]
        elif t == "mbs":
            init = [[kk, rng.choice(STRS)] for kk in rng.sample([True, False], rng.range(0, 2))]
        elif t == "msl":
            init = []
        elif t == "msi":
            init = [[kk, rng.choice(INTS)] for kk in rng.sample(SKEYS, rng.range(0, 3))]
            if init and rng.chance(1, 3):
                init.append([init[0][0] if rng.chance(1, 2) else init[-1][0], rng.choice(INTS)])      # a key written twice
        elif t == "mso":
            init = [[kk, rng.choice(INTS + [None, None])] for kk in rng.sample(SKEYS, rng.range(0, 3))]
        elif t == "mii":
            init = [[kk, rng.choice(IKEYS)] for kk in rng.sample(IKEYS, rng.range(1, 3))]
        else:
            init = [[kk, rng.choice(STRS)] for kk in rng.sample(IKEYS, rng.range(0, 3))]
            if init and rng.chance(1, 3):
                init.append([init[0][0], rng.choice(STRS)])
        return {"op": "new", "t": t, "init": init}
    if rng.chance(1, 12):
        return {"op": "src_bump"}
    if rng.chance(1, 15):
        cands = [x for x in names if it.vars[x].t in ("li", "mis")]
        if cands:
            return {"op": "bulk", "a": rng.choice(cands), "n": rng.choice([7, 8, 9, 15, 16, 17, 33, 64, 130, 300])}
    a = rng.choice(names)
    o = it.vars[a]
    if o.t in LIST_T:
        n = len(o.data)
        kind = rng.weighted(LIST_KINDS)
        focus = [k for k in getattr(it, "focus", []) if k in LIST_KIND_NAMES]
        if focus and rng.chance(3, 5):
            kind = rng.choice(focus)
        op = {"op": kind, "a": a}
        if kind == "new_from":
            return {"op": kind, "a": a, "i": rng.below(8), "t": rng.choice(["li", "msi"]), "v": rng.choice(INTS), "k": rng.choice(SKEYS)}
        if kind == "cap_call":
            return {"op": kind, "a": a, "v": rng.choice(INTS)}
        if kind == "push_from":
            cands = [x for x in lists if it.vars[x].t == "li"]
            if not cands:
                return {"op": "len", "a": a}
            return {"op": kind, "a": a, "b": rng.choice(cands), "i": rng.below(8), "v": rng.choice(INTS)}
        if kind in ("push", "write", "opassign", "index_of", "push_fn"):
            if o.t == "lb":
                op["v"] = rng.chance(1, 2)
            elif o.t == "lg":
                op["v"] = rng.choice(BIGS[:4] + [2, 3])
            elif o.t == "ls":
                op["v"] = rng.choice(STRS)
            elif o.t == "lo":
                op["v"] = rng.choice(INTS + [None])
            elif o.t == "ln":
                cands = [x for x in lists if it.vars[x].t == "li"]
                if cands and rng.chance(1, 2):
                    op["b"] = rng.choice(cands)
                else:
                    op["v"] = [rng.choice(INTS) for _ in range(rng.range(1, 2))]
            else:
                op["v"] = rng.choice(INTS)
            if kind == "opassign":
                op["sym"] = rng.choice(["+", "+", "-", "*", "/", "%"]) if o.t in ("li", "lg") else "+"
                if op["sym"] in ("/", "%") and op["v"] == 0:
                    op["v"] = 3
                if o.t == "li":
                    op["rhs"] = rng.weighted([("lit", 3), ("sum", 2), ("idx", 2)])
                    cands = [x for x in lists if it.vars[x].t == "li"]
                    if cands:
                        op["b"] = rng.choice(cands)
                        op["j"] = rng.below(8)
                    if op["rhs"] == "sum" and op["sym"] in ("/", "%") and op["v"] == 0:
                        op["v"] = 3
            if kind == "push_fn" and n == 0:
                op["op"] = "push"
        if kind == "chain2":
            return {"op": kind, "a": a, "i": rng.below(8), "j": rng.below(8), "v": rng.choice(INTS)}
        if kind in ("remove", "read", "write", "opassign", "concat", "bind", "unary_read"):
            op["i"] = pick_index(rng, n)
        if kind in ("eq", "join"):
            cands = [x for x in lists if it.vars[x].t == o.t]
            if not cands:
                return {"op": "len", "a": a}
            op["b"] = rng.choice(cands)
        if kind in ("map", "filter"):
            cands = [c for c, d in CALLBACKS.items() if d[0] == o.t and ((d[1] == "filter") == (kind == "filter"))]
            if not cands:
                return {"op": "len", "a": a}
            op["cb"] = rng.choice(cands)
        return op
    kind = rng.weighted(MAP_KINDS)
    focus = [k for k in getattr(it, "focus", []) if k in MAP_KIND_NAMES]
    if focus and rng.chance(3, 5) and o.t != "msl":
        kind = rng.choice(focus)
    op = {"op": kind, "a": a}
    if o.t == "msl":
        kind = rng.weighted([("mwrite", 6), ("mread", 3), ("mget", 4), ("mremove", 2), ("contains", 2), ("len", 1), ("values", 2), ("keys", 1),
                             ("clear", 1), ("alias", 2), ("chain", 4)])
        op = {"op": kind, "a": a, "k": rng.choice(SKEYS), "lv": [rng.choice(INTS) for _ in range(rng.range(1, 2))], "i": rng.below(8),
              "v": rng.choice(INTS)}
        if kind == "chain" and o.data:
            op["k"] = rng.choice(sorted(o.data.keys()))
        cands = [x for x in lists if it.vars[x].t == "li"]
        if kind == "mwrite" and cands and rng.chance(2, 3):
            op["b"] = rng.choice(cands)
        if kind == "mget" and o.data:
            op["k"] = rng.choice(sorted(o.data.keys()))
        return op
    if kind == "mwrite_keyfrom":
        want = "li" if o.t == "mis" else ("ls" if o.t == "msi" else None)
        cands = [x for x in lists if it.vars[x].t == want]
        if not cands:
            return {"op": "len", "a": a}
        return {"op": kind, "a": a, "b": rng.choice(cands), "i": rng.below(8), "v": rng.choice(STRS) if o.t == "mis" else 1}
    if kind == "mwrite_from":
        cands = [x for x in lists if it.vars[x].t == "li"]
        if not cands or o.t != "msi":
            return {"op": "len", "a": a}
        return {"op": kind, "a": a, "b": rng.choice(cands), "i": rng.below(8), "k": rng.choice(SKEYS)}
    if o.t == "mbs":
        op["k"] = rng.chance(1, 2)
        op["v"] = rng.choice(STRS)
    elif o.t == "msi":
        op["k"] = rng.choice(SKEYS)
        op["v"] = rng.choice(INTS)
    elif o.t == "mso":
        op["k"] = rng.choice(SKEYS)
        op["v"] = rng.choice(INTS + [None, None, None])
    elif o.t == "mii":
        op["k"] = rng.choice(IKEYS)
        op["v"] = rng.choice(IKEYS)
        op["i"] = rng.below(4)
        if kind == "mself" and o.data:
            op["k"] = rng.choice(sorted(o.data.keys()))
    else:
        op["k"] = rng.choice(IKEYS)
        op["v"] = rng.choice(STRS)
    if kind == "mopassign" and op["k"] not in o.data and o.data:
        op["k"] = rng.choice(sorted(o.data.keys(), key=str))
    return op


def generate(rng, max_ops=12):
    it = Interp()
    if rng.chance(1, 2):
        # swarm: this history concentrates on a few operation kinds (plus the ones that create aliases and clones)
        it.focus = rng.sample(LIST_KIND_NAMES, 3) + rng.sample(MAP_KIND_NAMES, 3) + ["alias", "clone"]
    ops = []
    nops = rng.range(3, max_ops)
    tries = 0
    try:
        while len(ops) < nops and tries < 100:
            tries += 1
            op = gen_op(rng, it)
            if it.apply(op):
                ops.append(op)
                it.observe_all()
    except Stop:
        ops.append(op)
    return {"ops": ops}


def render(spec):
    """-> (program text, expectation list, expected failure or None, unordered flag)"""
    it = Interp()
    fail = None
    try:
        for op in spec["ops"]:
            if it.apply(op):
                it.observe_all()
    except Stop as s:
        fail = str(s)
        it.em.code('print "unreachable"')
    return it.em.program(), it.em.expect, fail, it.em.unordered


def shrink(spec):
    ops = spec["ops"]
    for i in range(len(ops) - 1, -1, -1):
        yield {"ops": ops[:i] + ops[i + 1:]}
    for i, op in enumerate(ops):
        if op["op"] == "new" and op.get("init"):
            c = dict(op)
            c["init"] = op["init"][:-1]
            yield {"ops": ops[:i] + [c] + ops[i + 1:]}
