"""Closures that live in an imported module (C07): the module-level variable `count` is shared by the exported functions
`bump` / `peek` (modify writes through, a plain assignment in `shadowed` makes a local), `mk` is an exported factory whose
every call makes a fresh variable for the closure it returns.  The importer sees them in names form or through the module.
What makes the family worth having is where the code comes from: an imported module is ALWAYS loaded from its bytecode
file, also under `run` — so every environment of the model checks that concerns artefacts (stale ones of an older revision,
read-only ones, killed writers, file times) bears on closure semantics here, which it cannot in a single-file program."""

MULTI_MODULE = True
ONLY_EXPLICIT = True
FORMS = ["names", "module"]


def generate(rng):
    return {"form": rng.choice(FORMS), "a": rng.range(2, 40), "b": rng.range(2, 9), "c": rng.range(2, 6), "d": rng.range(50, 90),
            "p1": rng.range(1, 9), "p2": rng.range(11, 19), "extra": rng.range(0, 2)}


def render(spec):
    a, b, c, d, p1, p2 = spec["a"], spec["b"], spec["c"], spec["d"], spec["p1"], spec["p2"]
    lib = ("print \"lib loaded\"\ncount = %d\n"
           "export bump: fn() -> int = fn() -> int {\n\tmodify count = count + %d\n\treturn count\n}\n"
           "export peek: fn() -> int = fn() -> int {\n\treturn count\n}\n"
           "export mk: fn(int) -> fn() -> int = fn(p: int) -> fn() -> int {\n\tx = p * %d\n\treturn fn() -> int {\n\t\tmodify x = x + 1\n\t\treturn x\n\t}\n}\n"
           "export shadowed: fn() -> int = fn() -> int {\n\tcount = %d\n\treturn count\n}\n" % (a, b, c, d))
    q = "" if spec["form"] == "names" else "lib."
    head = "import bump, peek, mk, shadowed from lib\n" if spec["form"] == "names" else "import lib\n"
    body = ["print %sbump()" % q, "print %speek()" % q, "g1 = %smk(%d)" % (q, p1), "g2 = %smk(%d)" % (q, p2), "print g1()", "print g2()", "print g1()",
            "print %sshadowed()" % q, "print %speek()" % q, "print %sbump()" % q]
    out = ["lib loaded", a + b, a + b, p1 * c + 1, p2 * c + 1, p1 * c + 2, d, a + b, a + 2 * b]
    for _ in range(spec.get("extra", 0)):
        body += ["print g2()", "print %sbump()" % q]
        out += [p2 * c + 2 + _, a + (3 + _) * b]
    main = head + "\n".join(body) + "\n"
    return {"files": {"main.ms": main, "lib.ms": lib}, "entry": "main.ms", "expect": [("exact", str(o)) for o in out], "fail": None, "unordered": False}


def shrink(spec):
    if spec.get("extra"):
        s = dict(spec)
        s["extra"] = 0
        yield s
