"""Common helpers for the program generators / reference models."""


class Stop(Exception):
    """The model has reached the point where the program must fail."""


class Emitter:
    """Collects program text and, in lock-step, the output the reference model expects."""

    def __init__(self):
        self.lines = []
        self.expect = []      # list of (mode, payload): ("exact", str) | ("set", sorted list of str)
        self.fail = None      # None or a short description of the expected run-time failure
        self.indent = 0
        self.unordered = False

    def code(self, text):
        for l in text.split("\n"):
            self.lines.append("\t" * self.indent + l)

    def out(self, text):
        self.expect.append(("exact", text))

    def out_set(self, prefix, items, suffix):
        self.unordered = True
        self.expect.append(("set", [prefix, sorted(items), suffix]))

    def program(self):
        return "\n".join(self.lines) + "\n"


def fmt_value(v, nested=False):
    """How `print` renders a value (strings are quoted only inside containers)."""
    if v is None:
        return "nil"
    if isinstance(v, bool):
        return "true" if v else "false"
    if isinstance(v, int):
        return str(v)
    if isinstance(v, str):
        return '"%s"' % v if nested else v
    if isinstance(v, list):
        return "[" + ", ".join(fmt_value(x, True) for x in v) + "]"
    raise ValueError(v)


def lit(v):
    """Source literal for a value."""
    if v is None:
        return "nil"
    if isinstance(v, bool):
        return "true" if v else "false"
    if isinstance(v, int):
        return str(v)
    if isinstance(v, str):
        return '"%s"' % v
    if isinstance(v, list):
        return "[" + ", ".join(lit(x) for x in v) + "]"
    raise ValueError(v)


def compare_output(expect, actual_text):
    """Compare the model's expectation with the program's stdout.  Returns None when they agree,
    otherwise a message.  Lines of mode "set" are compared order-insensitively (hash-ordered
    map renderings)."""
    lines = actual_text.split("\n")
    if lines and lines[-1] == "":
        lines.pop()
    n = len(expect)
    for i, (mode, payload) in enumerate(expect):
        if i >= len(lines):
            return "output ends after %d lines, model expects %d (next expected: %r)" % (len(lines), n, payload)
        got = lines[i]
        if mode == "exact":
            if got != payload:
                return "line %d: expected %r, got %r" % (i + 1, payload, got)
        else:
            prefix, items, suffix = payload
            if not (got.startswith(prefix) and got.endswith(suffix)) or len(got) < len(prefix) + len(suffix):
                return "line %d: expected %s{%s}%s in any order, got %r" % (i + 1, prefix, ", ".join(items), suffix, got)
            body = got[len(prefix):len(got) - len(suffix)]
            parts = split_items(body)
            if sorted(parts) != items:
                return "line %d: expected items %r in any order, got %r" % (i + 1, items, got)
    if len(lines) > n:
        return "program printed %d extra line(s) after the %d the model expects: %r" % (len(lines) - n, n, lines[n:n + 3])
    return None


def split_items(body):
    """Split 'a: 1, "b c": 2' or '["q", 6], ["b", 2]' at top-level ', ' (strings of the generators'
    vocabulary never contain quotes, commas or brackets)."""
    if body == "":
        return []
    items, depth, cur, inq = [], 0, "", False
    i = 0
    while i < len(body):
        ch = body[i]
        if ch == '"':
            inq = not inq
        if not inq:
            if ch in "[{":
                depth += 1
            elif ch in "]}":
                depth -= 1
            elif ch == "," and depth == 0 and body[i + 1:i + 2] == " ":
                items.append(cur)
                cur = ""
                i += 2
                continue
        cur += ch
        i += 1
    items.append(cur)
    return items
