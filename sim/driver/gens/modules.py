"""Module graphs (C11): import DAGs over up to 5 modules (entry included) in the project root and one
sub-directory, each edge in one or both import forms, import statements placed before / between / after
side-effecting statements; a reference model (DFS in import order with a visited set, one counter
instance per module) predicts the trace.  Negative configurations exercise the static half of the
statement (visibility, non-reassignability)."""
from .base import Emitter

MULTI_MODULE = True


def mod_name(spec, i):
    """File stem (and identifier under a module-form import) of module i.  spec["stems"] overrides the default m<i>:
    stems that differ only in letter case, or a module in a sub-directory that is called like the entry file."""
    stems = spec.get("stems")
    if stems:
        return stems[i]
    return "main" if i == 0 else "m%d" % i


def mod_file(spec, i):
    d = spec["mods"][i]["dir"]
    return (d + "/" if d else "") + mod_name(spec, i) + ".ms"


def import_path(spec, i, j):
    di, dj = spec["mods"][i]["dir"], spec["mods"][j]["dir"]
    if di == dj:
        return mod_name(spec, j)
    if di == "" and dj:
        return dj + "/" + mod_name(spec, j)
    if dj.startswith(di + "/"):
        return dj[len(di) + 1:] + "/" + mod_name(spec, j)
    return None      # a module cannot reach upwards (`..` does not parse)


class State:
    def __init__(self):
        self.cnt = 0
        self.cell = 0
        self.n = 0
        self.ready = False     # state statement executed (exports exist)
        self.done = False


def render(spec):
    """-> dict(files, entry, expect, fail, unordered)"""
    mods = spec["mods"]
    files = {}
    sources = {}
    tmp = [0]
    # ---- sources
    for i, m in enumerate(mods):
        L = ['print "enter %s"' % mod_name(spec, i)]
        for st in m["stmts"]:
            k = st[0]
            if k == "state":
                j = i
                # every module uses the SAME internal names (cnt, hid): a lookup that leaks across modules shows up
                L.append("cnt = %d" % (0 if True else j))
                L.append("hid%d = 3" % j)
                L.append("hidt%d: int = 4" % j)           # typed, but still not exported
                L.append("const hidc%d: int = 5" % j)
                L.append("export cell%d: [int...] = [0]" % j)
                L.append("export n%d: int = %d" % (j, 10 + j))
                L.append("export tot%d: int = 0" % j)
                L.append("export type T%d int" % j)
                if j % 2 == 1:
                    # an export whose name coincides with a built-in method name
                    L.append("export to_str: fn(int) -> str = fn(q: int) -> str {\n\tmodify cnt = cnt + 1\n\tmodify tot%d = tot%d + 1\n\tcell%d[0] += 1\n\treturn \"<%d:\" + q + \">\"\n}" % (j, j, j, j))
                L.append("export bump%d: fn() -> int = fn() -> int {\n\tmodify cnt = cnt + 1\n\tmodify tot%d = tot%d + 1\n\tcell%d[0] += 1\n\treturn cnt\n}" % (j, j, j, j))
                L.append("export peek%d: fn() -> int = fn() -> int {\n\treturn cnt\n}" % j)
                # a factory that builds its closure at CALL time (possibly while an importer's top level is running)
                L.append("export mkpeek%d: fn() -> fn() -> int = fn() -> fn() -> int {\n\treturn fn() -> int {\n\t\treturn cnt * 100 + tot%d\n\t}\n}" % (j, j))
            elif k == "import":
                j, form = st[1], st[2]
                p = import_path(spec, i, j)
                if form == "mod":
                    L.append("import %s" % p)
                elif form == "vals":
                    # a second, later names-form import of value-typed exports: they are bound to what the module holds NOW
                    L.append("import tot%d, n%d from %s\nprint tot%d\nprint n%d" % (j, j, p, j, j))
                elif form == "type":
                    tmp[0] += 1
                    L.append("import type T%d from %s\ntv%d: T%d = %d\nprint tv%d" % (j, p, tmp[0], j, 40 + j, tmp[0]))
                else:
                    L.append("import bump%d, peek%d, cell%d, mkpeek%d from %s" % (j, j, j, j, p))
            elif k == "use":
                j, form, what = st[1], st[2], st[3]
                if what == "tostr":
                    L.append("print %s.to_str(%d)" % (mod_name(spec, j), 7))
                elif what == "mk":
                    tmp[0] += 1
                    if form == "mod":
                        L.append("k%d = %s.mkpeek%d()\nprint k%d()" % (tmp[0], mod_name(spec, j), j, tmp[0]))
                    else:
                        L.append("k%d = mkpeek%d()\nprint k%d()" % (tmp[0], j, tmp[0]))
                elif form == "mod":
                    if what == "tot":
                        L.append("print %s.tot%d" % (mod_name(spec, j), j))
                    elif what == "cell":
                        tmp[0] += 1
                        L.append("c%d = %s.cell%d\nprint c%d[0]" % (tmp[0], mod_name(spec, j), j, tmp[0]))
                    else:
                        L.append("print %s.%s%d()" % (mod_name(spec, j), what, j))
                else:
                    if what == "cell":
                        L.append("print cell%d[0]" % j)
                    else:
                        L.append("print %s%d()" % (what, j))
            elif k == "say":
                L.append('print "%s says %s"' % (mod_name(spec, i), st[1]))
            elif k == "bimport":
                # an import statement INSIDE a block, with statements before it: it runs where it stands (not at block entry,
                # not in front of the loop), once per execution of the statement, and not at all in a loop of zero turns
                j, form, shape = st[1], st[2], st[3]
                p = import_path(spec, i, j)
                me = mod_name(spec, i)
                tmp[0] += 1
                has_state = any(x[0] == "state" for x in mods[j]["stmts"])
                body = ['\tprint "%s says blk"' % me, "\timport %s" % p if (form == "mod" or not has_state) else "\timport bump%d from %s" % (j, p)]
                if has_state:
                    body.append("\tprint %s.bump%d()" % (mod_name(spec, j), j) if form == "mod" else "\tprint bump%d()" % j)
                body.append('\tprint "%s says blkend"' % me)
                if shape == "if_mid":
                    L += ["if 1 == 1 {"] + body + ["}"]
                elif shape == "else_mid":
                    L += ["if 1 == 2 {", '\tprint "%s says no"' % me, "} else {"] + body + ["}"]
                elif shape == "while1":
                    L += ["bw%d = 0" % tmp[0], "while bw%d < 1 {" % tmp[0]] + body + ["\tbw%d = bw%d + 1" % (tmp[0], tmp[0]), "}"]
                else:
                    L += ["bw%d = 0" % tmp[0], "while bw%d < 0 {" % tmp[0]] + body + ["\tbw%d = bw%d + 1" % (tmp[0], tmp[0]), "}"]
            elif k == "defvia":
                j = st[1]
                L.append("export via%d_%d: fn() -> int = fn() -> int {\n\treturn %s.bump%d() * 10\n}" % (i, j, mod_name(spec, j), j))
            elif k == "usevia":
                a, b = st[1], st[2]
                L.append("print %s.via%d_%d()" % (mod_name(spec, a), a, b))
            elif k == "neg":
                kind, j = st[1], st[2]
                p = import_path(spec, i, j)
                if kind.endswith("_inblock"):
                    # the import statement itself sits inside a block, and the write attempt in the same block
                    kind = kind[:-8]
                    L.append("if 1 == 1 {")
                    L.append("import %s" % p)
                    NEG_CLOSE = True
                elif kind.endswith("_infn"):
                    # the same statement inside a function body of the importer (never called: it must not compile)
                    kind = kind[:-5]
                    L.append("negf = fn() {")
                    NEG_CLOSE = True
                else:
                    NEG_CLOSE = False
                if kind == "import_hidden":
                    L.append("import hid%d from %s" % (j, p))
                elif kind == "import_absent":
                    L.append("import nope%d from %s" % (j, p))
                elif kind == "import_hidden_typed":
                    L.append("import hidt%d from %s" % (j, p))
                elif kind == "import_hidden_const":
                    L.append("import hidc%d from %s" % (j, p))
                elif kind == "dot_hidden_typed":
                    L.append("print %s.hidt%d" % (mod_name(spec, j), j))
                elif kind == "dot_hidden_const":
                    L.append("print %s.hidc%d" % (mod_name(spec, j), j))
                elif kind == "dot_hidden":
                    L.append("print %s.hid%d" % (mod_name(spec, j), j))
                elif kind == "assign_module":
                    L.append("%s = 5" % mod_name(spec, j))
                elif kind == "assign_member":
                    L.append("%s.n%d = 6" % (mod_name(spec, j), j))
                elif kind.startswith("opassign_member"):
                    sym = {"opassign_member": "+", "opassign_member_sub": "-", "opassign_member_mul": "*", "opassign_member_div": "/",
                           "opassign_member_mod": "%"}[kind]
                    L.append("%s.n%d %s= 1" % (mod_name(spec, j), j, sym))
                elif kind == "assign_fn_member":
                    L.append("%s.bump%d = fn() -> int {\n\treturn 0\n}" % (mod_name(spec, j), j))
                elif kind in WRONG_TYPE:
                    # "with their declared types": an export used at another type than the one it was declared with
                    L.append(WRONG_TYPE[kind] % {"m": mod_name(spec, j), "j": j})
                if NEG_CLOSE:
                    L.append("}")
        L.append('print "leave %s"' % mod_name(spec, i))
        sources[i] = "\n".join(L) + "\n"
        files[mod_file(spec, i)] = sources[i]
    # ---- model
    out = []
    states = [State() for _ in mods]
    neg = None

    def run(i):
        nonlocal neg
        out.append("enter %s" % mod_name(spec, i))
        for st in mods[i]["stmts"]:
            k = st[0]
            if k == "state":
                states[i].ready = True
            elif k == "import":
                j = st[1]
                if not states[j].done:
                    states[j].done = True     # marked before running: a DAG never re-enters
                    run(j)
                if st[2] == "type":
                    out.append(str(40 + j))
                if st[2] == "vals":
                    out.append(str(states[j].cnt))
                    out.append(str(10 + j))
            elif k == "use":
                j, what = st[1], st[3]
                s = states[j]
                if what == "bump":
                    s.cnt += 1
                    s.cell += 1
                    out.append(str(s.cnt))
                elif what in ("peek", "tot"):
                    out.append(str(s.cnt))
                elif what == "mk":
                    out.append(str(s.cnt * 100 + s.cnt))
                elif what == "tostr":
                    s.cnt += 1
                    s.cell += 1
                    out.append("<%d:7>" % j)
                else:
                    out.append(str(s.cell))
            elif k == "say":
                out.append("%s says %s" % (mod_name(spec, i), st[1]))
            elif k == "bimport":
                j, shape = st[1], st[3]
                if shape != "while0":
                    out.append("%s says blk" % mod_name(spec, i))
                    if not states[j].done:
                        states[j].done = True
                        run(j)
                    if any(x[0] == "state" for x in mods[j]["stmts"]):
                        states[j].cnt += 1
                        states[j].cell += 1
                        out.append(str(states[j].cnt))
                    out.append("%s says blkend" % mod_name(spec, i))
            elif k == "usevia":
                s = states[st[2]]
                s.cnt += 1
                s.cell += 1
                out.append(str(s.cnt * 10))
            elif k == "neg":
                neg = (i, st[1], st[2])
        out.append("leave %s" % mod_name(spec, i))

    states[0].done = True
    run(0)
    res = {"files": files, "entry": "main.ms", "expect": [("exact", o) for o in out], "fail": None, "unordered": False}
    if neg is not None:
        i = neg[0]
        line = 1 + sources[i][:sources[i].index(_neg_line(spec, i))].count("\n")
        res["negative"] = {"file": mod_file(spec, i), "line": line, "kind": neg[1]}
    return res


WRONG_TYPE = {
    "wrong_type_dot": "wty: str = %(m)s.n%(j)d",
    "wrong_type_dot_list": "wty: [str...] = %(m)s.cell%(j)d",
    "wrong_type_dot_fn": "wty: fn() -> str = %(m)s.bump%(j)d",
    "wrong_type_dot_call": "print %(m)s.bump%(j)d(1)",
    "wrong_type_name_list": "wty: [str...] = cell%(j)d",
    "wrong_type_name_fn": "wty: fn() -> str = peek%(j)d",
    "wrong_type_name_call": "print bump%(j)d(1)",
}


def _neg_line(spec, i):
    for st in spec["mods"][i]["stmts"]:
        if st[0] == "neg":
            kind, j = st[1], st[2]
            if kind.endswith("_infn"):
                kind = kind[:-5]
            if kind.endswith("_inblock"):
                kind = kind[:-8]
            p = import_path(spec, i, j)
            if kind in WRONG_TYPE:
                return WRONG_TYPE[kind] % {"m": mod_name(spec, j), "j": j}
            return {"import_hidden_typed": "import hidt%d from %s" % (j, p), "import_hidden_const": "import hidc%d from %s" % (j, p),
                    "dot_hidden_typed": "print %s.hidt%d" % (mod_name(spec, j), j), "dot_hidden_const": "print %s.hidc%d" % (mod_name(spec, j), j),
                    "import_hidden": "import hid%d from %s" % (j, p), "import_absent": "import nope%d from %s" % (j, p),
                    "dot_hidden": "print %s.hid%d" % (mod_name(spec, j), j), "assign_module": "%s = 5" % mod_name(spec, j),
                    "assign_member": "%s.n%d = 6" % (mod_name(spec, j), j), "opassign_member": "%s.n%d += 1" % (mod_name(spec, j), j), "opassign_member_sub": "%s.n%d -= 1" % (mod_name(spec, j), j),
                    "opassign_member_mul": "%s.n%d *= 1" % (mod_name(spec, j), j), "opassign_member_div": "%s.n%d /= 1" % (mod_name(spec, j), j),
                    "opassign_member_mod": "%s.n%d %%= 1" % (mod_name(spec, j), j),
                    "assign_fn_member": "%s.bump%d = fn() -> int {" % (mod_name(spec, j), j)}[kind]
    return ""


# ------------------------------------------------------------------ generation

def generate(rng, max_mods=5, negative=False):
    n = rng.range(2, max_mods)
    dirs = [""] + [rng.choice(["", "", "lib", "lib", "lib/sub"]) for _ in range(n - 1)]
    if n >= 3 and dirs[1] == "" and rng.chance(1, 3):
        # a directory that is called like the module next to it (m1.ms and m1/): `import m1` still means the file
        for j in range(2, n):
            if dirs[j] == "lib":
                dirs[j] = "m1"
            elif dirs[j] == "lib/sub":
                dirs[j] = "m1/sub"
    spec = {"mods": [{"dir": d, "stmts": []} for d in dirs]}
    naming = rng.weighted([("default", 3), ("case_twins", 2), ("entry_twin", 1)])
    if naming == "case_twins":
        spec["stems"] = ["main"] + ["util", "Util", "UTIL", "uTil"][:n - 1]
    elif naming == "entry_twin":
        spec["stems"] = ["main"] + ["m%d" % j for j in range(1, n)]
    # edges i -> j (i < j); every non-entry module reachable from some earlier module that can reach it
    edges = {}
    for j in range(1, n):
        cands = [i for i in range(j) if import_path(spec, i, j)]
        if not cands:
            spec["mods"][j]["dir"] = ""
            cands = list(range(j))
        k = rng.range(1, min(len(cands), 3))
        for i in rng.sample(cands, k):
            edges.setdefault(i, []).append(j)
    if naming == "entry_twin":
        # a module outside the entry's directory whose file is called like the entry file
        sub = [j for j in range(1, n) if spec["mods"][j]["dir"]]
        if sub:
            spec["stems"][rng.choice(sub)] = "main"
    bare = [False] + [rng.chance(1, 5) for _ in range(n - 1)]      # modules without any export
    for i in range(n):
        stmts = []
        imported = {}        # j -> set of forms
        slots = []
        for j in rng.shuffle(edges.get(i, [])):
            if bare[j]:
                forms = ["mod"]
            else:
                forms = rng.weighted([(["mod"], 3), (["names"], 3), (["mod", "names"], 2), (["names", "mod"], 2), (["type"], 1),
                                      (["type", "mod"], 1), (["names", "type"], 1), (["names", "vals"], 2), (["mod", "vals"], 1)])
            for f in forms:
                slots.append(("import", j, f))
        state_pos = rng.below(len(slots) + 1)
        seq = slots[:state_pos] + ([] if bare[i] else [("state",)]) + slots[state_pos:]
        for s in seq:
            if rng.chance(1, 3):
                stmts.append(["say", rng.choice(["a", "b", "c"]) + str(len(stmts))])
            if s[0] == "state":
                stmts.append(["state"])
            else:
                _, j, f = s
                stmts.append(["import", j, f])
                imported.setdefault(j, []).append(f)
                if f not in ("type", "vals") and not bare[j]:
                    for _ in range(rng.range(0, 2)):
                        stmts.append(["use", j, f, rng.choice(["bump", "bump", "peek", "cell", "mk"] + (["tot", "tot"] if f == "mod" else [])
                                                              + (["tostr", "tostr"] if (f == "mod" and j % 2 == 1) else []))])
            # interleave uses of earlier imports
            usable = sorted(j for j in imported if not bare[j] and [f for f in imported[j] if f not in ("type", "vals")])
            if usable and rng.chance(1, 2):
                j = rng.choice(usable)
                f = rng.choice([f for f in imported[j] if f not in ("type", "vals")])
                stmts.append(["use", j, f, rng.choice(["bump", "peek", "cell", "mk"] + (["tot"] if f == "mod" else []))])
        # a function exported by i that reaches into an imported module
        modform = [j for j, fs in imported.items() if "mod" in fs and not bare[j]]
        if modform and rng.chance(1, 2) and ["state"] in stmts:
            j = rng.choice(sorted(modform))
            stmts.append(["defvia", j])
        if edges.get(i):
            # imports inside blocks; a stream of its own (a function of what the module looks like so far), so that the
            # graphs are what they were before this statement kind existed
            import core
            sub = core.Rng(core.derive(len(stmts), "bimport", repr(stmts), i, n))
            if sub.chance(1, 4):
                for _ in range(sub.range(1, 2)):
                    j = sub.choice(sorted(edges[i]))
                    # (a block may not import a name that is already bound outside it: the statement goes before the
                    # module's own top-level imports of j)
                    first = min([k for k, x in enumerate(stmts) if x[0] == "import" and x[1] == j] + [len(stmts)])
                    stmts.insert(sub.below(first + 1), ["bimport", j, sub.choice(["mod", "names"]), sub.choice(["if_mid", "else_mid", "while1", "while0", "while0"])])
        spec["mods"][i]["stmts"] = stmts
        spec["mods"][i]["imported"] = {str(k): v for k, v in imported.items()}
    # importers use via functions of modules they imported in module form (appended after the defining import)
    for i in range(n):
        st = spec["mods"][i]["stmts"]
        for a_s, forms in list(spec["mods"][i]["imported"].items()):
            a = int(a_s)
            if "mod" not in forms:
                continue
            for s in spec["mods"][a]["stmts"]:
                if s[0] == "defvia" and rng.chance(2, 3):
                    st.append(["usevia", a, s[1]])
    if negative:
        cands = [(i, int(j)) for i in range(n) for j, fs in spec["mods"][i]["imported"].items() if not bare[int(j)]]
        if cands:
            i, j = rng.choice(cands)
            forms = spec["mods"][i]["imported"][str(j)]
            kinds = ["import_hidden", "import_absent", "import_hidden_typed", "import_hidden_const"]
            if "mod" in forms:
                kinds += ["dot_hidden", "dot_hidden_typed", "dot_hidden_const", "assign_module", "assign_member", "opassign_member", "assign_fn_member", "opassign_member_sub",
                          "opassign_member_mul", "opassign_member_div", "opassign_member_mod"]
                # the same write attempts from inside a function body of the importer
                kinds += ["assign_member_infn", "assign_member_infn", "opassign_member_infn", "opassign_member_mod_infn",
                          "assign_fn_member_infn", "dot_hidden_infn"]
                kinds += ["wrong_type_dot", "wrong_type_dot_list", "wrong_type_dot_fn", "wrong_type_dot_call", "wrong_type_dot_infn",
                          "wrong_type_dot_call_infn"]
            if "names" in forms:
                kinds += ["wrong_type_name_list", "wrong_type_name_fn", "wrong_type_name_call", "wrong_type_name_call_infn"]
            # the module is imported in module form INSIDE a block only (at the top level the file imports its names at most), and
            # written to in that block
            block_cands = [(a, int(b)) for a in range(n) for b, fs in spec["mods"][a]["imported"].items() if not bare[int(b)] and "mod" not in fs]
            if block_cands and rng.chance(1, 5):
                i, j = rng.choice(block_cands)
                spec["mods"][i]["stmts"].append(["neg", rng.choice(["assign_member_inblock", "opassign_member_inblock", "assign_fn_member_inblock"]), j])
            else:
                spec["mods"][i]["stmts"].append(["neg", rng.choice(kinds), j])
    for m in spec["mods"]:
        m.pop("imported", None)
    return spec


def valid(spec):
    """Structural validity (after shrinking): every use follows an import of that form, every import path exists."""
    n = len(spec["mods"])
    reach = {0}
    for i, m in enumerate(spec["mods"]):
        seen = set()
        state = False
        for st in m["stmts"]:
            if st[0] == "state":
                state = True
            elif st[0] == "import":
                if st[1] >= n or st[1] <= i or import_path(spec, i, st[1]) is None or (st[1], st[2]) in seen:
                    return False
                seen.add((st[1], st[2]))
                if i in reach:
                    reach.add(st[1])
            elif st[0] == "bimport":
                if st[1] >= n or st[1] <= i or import_path(spec, i, st[1]) is None or any(x[0] == st[1] for x in seen):
                    return False
            elif st[0] == "use":
                if (st[1], st[2]) not in seen or not any(x[0] == "state" for x in spec["mods"][st[1]]["stmts"]):
                    return False
                if st[3] in ("tot", "tostr") and st[2] != "mod":
                    return False
                if st[3] == "tostr" and st[1] % 2 != 1:
                    return False
            elif st[0] == "defvia":
                if (st[1], "mod") not in seen or not state:
                    return False
            elif st[0] == "usevia":
                a, b = st[1], st[2]
                if (a, "mod") not in seen or a >= n or ["defvia", b] not in spec["mods"][a]["stmts"]:
                    return False
            elif st[0] == "neg":
                if not any(s[1] == st[2] for s in seen):
                    return False
                if st[1].endswith("_inblock"):
                    if (st[2], "mod") in seen:
                        return False
                elif st[1].startswith("wrong_type_name"):
                    if (st[2], "names") not in seen:
                        return False
                elif (st[1].endswith("_infn") or st[1].startswith("wrong_type_dot") or st[1] in ("dot_hidden", "dot_hidden_typed", "dot_hidden_const", "assign_module", "assign_member", "assign_fn_member") or st[1].startswith("opassign_member")) and (st[2], "mod") not in seen:
                    return False
        if not state and any(s[0] in ("defvia",) for s in m["stmts"]):
            return False
    # names/type imports and negative statements need exports in the imported module
    for i, m in enumerate(spec["mods"]):
        for st in m["stmts"]:
            if (st[0] == "import" and st[2] != "mod") or st[0] == "neg":
                j = st[1] if st[0] == "import" else st[2]
                if not any(x[0] == "state" for x in spec["mods"][j]["stmts"]):
                    return False
    return True


def shrink(spec):
    mods = spec["mods"]
    for i in range(len(mods)):
        for k in range(len(mods[i]["stmts"]) - 1, -1, -1):
            if mods[i]["stmts"][k][0] == "state":
                continue
            c = {"mods": [dict(m, stmts=list(m["stmts"])) for m in mods]}
            if spec.get("stems"):
                c["stems"] = list(spec["stems"])
            del c["mods"][i]["stmts"][k]
            if valid(c):
                yield c
    # drop the last module if nothing imports it
    last = len(mods) - 1
    if last >= 1 and not any(s[0] in ("import", "use", "usevia", "neg", "defvia", "bimport") and last in s[1:3] for m in mods for s in m["stmts"]):
        c = {"mods": [dict(m, stmts=list(m["stmts"])) for m in mods[:-1]]}
        if spec.get("stems"):
            c["stems"] = list(spec["stems"][:-1])
        yield c
    if spec.get("stems"):
        yield {"mods": [dict(m, stmts=list(m["stmts"])) for m in mods]}
