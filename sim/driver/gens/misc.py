"""Hand-written parameterised templates for feature areas the model-based generators do not reach.
No reference model: these programs feed the differential checks (C04, C18) only."""

TEMPLATES = ["dup_class_names", "big_string", "many_functions", "control_flow", "string_builtins", "optionals", "numeric_kinds",
             "many_locals", "deep_expr", "long_ident", "many_args", "many_closures", "deep_nesting", "huge_string", "unicode_offsets"]
SPECIALS = ['\\"', "\\\\", " ", "\\t", "\\n", "é", " ", "n", "#", "'"]


def generate(rng):
    t = rng.choice(TEMPLATES)
    return {"t": t, "a": rng.range(1, 9), "b": rng.range(10, 99), "n": rng.choice([3, 40, 150, 400]),
            # the compiler needs seconds for a 20 kB literal; sizes around the reader's 8 KiB buffer are the interesting ones
            "size": rng.choice([100, 700, 2000]) if rng.chance(3, 4) else rng.choice([8185, 8192, 8200]),
            "fill": [rng.below(len(SPECIALS)) for _ in range(12)]}


def render(spec):
    t = spec["t"]
    a, b = spec["a"], spec["b"]
    L = []
    if t == "dup_class_names":
        # two classes with one name in different function scopes (their compiled labels collide)
        for k, (nm, add) in enumerate((("small", 1), ("big", 40))):
            L.append("%s = fn() -> int {\n\tclass Box {\n\t\tv: int\n\t\tconstructor(self) {\n\t\t\tself.v = %d\n\t\t}\n\t\tfn value(self) -> int {\n\t\t\treturn self.v + %d\n\t\t}\n\t}\n\tb = Box()\n\treturn b.value()\n}" % (nm, a + k, add + b))
        # (calling both in one run trips a "double export" of the class name on the unchanged tree, in both modes alike)
        L.append("print %s()" % ("small" if a % 2 else "big"))
    elif t == "big_string":
        # a literal that crosses the reader's buffer boundary, with special characters around the boundary
        size = spec["size"]
        body = []
        i = 0
        while sum(len(x) for x in body) < size:
            body.append("abcdefghij"[i % 10] if i % 37 else SPECIALS[spec["fill"][(i // 37) % 12]])
            i += 1
        s = "".join(body)
        L.append('s = "%s"' % s)
        L.append("print s.len()\nprint s\nprint s + s")
    elif t == "many_functions":
        n = spec["n"]
        for i in range(n):
            L.append('f%d = fn(x: int) -> int {\n\treturn x + %d\n}' % (i, i))
        L.append("acc = 0")
        for i in range(0, n, max(1, n // 25)):
            L.append("acc = acc + f%d(%d)" % (i, a))
        L.append("print acc")
    elif t == "control_flow":
        L.append("i = 0\nacc = 0\nwhile i < %d {\n\ti = i + 1\n\tif i %% 3 == 0 {\n\t\tcontinue\n\t} else if i == %d {\n\t\tbreak\n\t} else {\n\t\tacc = acc + i\n\t}\n}\nprint acc" % (b, b - a))
        L.append("from 0 to %d step 2, k {\n\tif k > %d {\n\t\tbreak\n\t}\n\tprint k\n}" % (a * 3, a * 2))
        L.append("from %d through %d {\n\tacc += 1\n}\nprint acc" % (a, a + 3))
        L.append("fib = fn(n: int) -> int {\n\tif n < 2 {\n\t\treturn n\n\t}\n\treturn self(n - 1) + self(n - 2)\n}\nprint fib(%d)" % (a + 3))
    elif t == "string_builtins":
        L.append('s = "héllo wörld %d"' % b)
        L.append("print s.len()\nprint s.contains(\"wör\")\nprint s.index_of(\"l\")\nprint s.reverse()\nprint s.replace(\"l\", \"L\")")
        L.append('print s.split(2)\nprint s.chars().len()\nprint "%d".parse_int()\nprint "zz".parse_int()\nprint "ff".parse_int_radix(16)' % b)
        L.append('print "1.5".parse_float()\nprint "true".parse_bool()\nprint s.substring(0, 1)\nprint s.insert("X", 0)\nprint s.delete(0, 1)\nprint s + %d + true + 1.5' % a)
    elif t == "optionals":
        L.append("o: int? = nil\nprint o\nprint o or %d\no ?= %d\nprint get o\nprint o == nil" % (a, b))
        L.append("pick = fn(x: int) -> str? {\n\tif x > %d {\n\t\treturn \"big\"\n\t}\n\treturn nil\n}\nprint pick(%d)\nprint (pick(0)) or \"small\"" % (a, b))
        L.append("w: str? = nil\nif w ?= pick(%d) {\n\tprint \"got \" + w\n} else {\n\tprint \"none\"\n}" % b)
        L.append("xs: [int?...] = [1, nil, %d]\nprint xs\nprint xs[1] == nil" % a)
    elif t == "huge_string":
        # one instruction argument around 64 KiB (plain characters compile fast)
        size = [65520, 65530, 65531, 65535, 65536, 65540, 70000, 131080][spec["n"] % 8]
        body = "<" + ("abcdefghij" * (size // 10 + 1))[:size - 2] + ">"
        L.append('s = "%s"' % body)
        L.append('print s.len()\nprint s.substring(0, 3)\nprint s.substring(s.len() - 3, s.len())\nprint s.contains("j>")')
    elif t == "unicode_offsets":
        # a multi-byte character at every byte offset 0..139 of a string literal (whoever cuts, pads or previews an
        # argument at a fixed BYTE position — 16, 32, 48, 64, 128 — meets one of them in the middle of a character)
        wide = ["é", "€", "😀"][a % 3]
        for k in range(0, 140):
            L.append('print "%s%s%s."' % ("abcdefghij"[k % 10] * k, wide, wide if k % 2 else ""))
    elif t == "many_locals":
        n = spec["n"]
        for i in range(n):
            L.append("q%d = %d" % (i, (i * a) % 97))
        L.append("acc = 0")
        for i in range(0, n, max(1, n // 30)):
            L.append("acc = acc + q%d" % i)
        L.append("print acc")
    elif t == "deep_expr":
        n = min(spec["n"], 150)
        L.append("x = %d" % a)
        L.append("print " + " + ".join(["x", str(b)] * n))
        depth = min(n, 40)
        L.append("print " + "(" * depth + "x" + " + 1)" * depth)
        L.append('print "s" + ' + " + ".join(['"%d"' % (i % 10) for i in range(n)]))
    elif t == "long_ident":
        name = "v" + "abcdefghij" * max(3, spec["n"] // 10)
        L.append("%s = %d" % (name, a))
        L.append("f_%s = fn(p_%s: int) -> int {\n\treturn p_%s + %s\n}" % (name, name, name, name))
        L.append("print f_%s(%d)" % (name, b))
    elif t == "many_args":
        k = 4 + spec["n"] % 9
        ps = ", ".join("p%d: int" % i for i in range(k))
        L.append("f = fn(%s) -> int {\n\treturn %s\n}" % (ps, " + ".join("p%d * %d" % (i, i + 1) for i in range(k))))
        L.append("print f(%s)" % ", ".join(str((a + i) % 7) for i in range(k)))
        L.append("g = fn() -> int {\n\treturn %d\n}\nprint g()" % b)
        L.append("h = fn(q: int) {\n\tprint q\n}\nh(%d)" % a)
    elif t == "many_closures":
        n = min(spec["n"], 300)
        L.append("base = %d\nfs: [fn(int) -> int...] = []" % a)
        for i in range(n):
            L.append("fs.push(fn(x: int) -> int {\n\treturn x + base + %d\n})" % i)
        L.append("acc = 0\nfrom 0 to fs.len(), i {\n\tf = fs[i]\n\tacc = acc + f(1)\n}\nprint acc")
    elif t == "deep_nesting":
        depth = 3 + spec["n"] % 12
        L.append("x = %d\nacc = 0" % a)
        for d in range(depth):
            L.append("\t" * d + ("if x > %d {" % (d - 50) if d % 2 == 0 else "while acc < %d {" % (d + 1)))
            L.append("\t" * (d + 1) + "acc = acc + 1")
        for d in range(depth - 1, -1, -1):
            L.append("\t" * d + "}")
        L.append("print acc")
    else:
        L.append("i = %d\nb = B%d\nf = %d.5\ny = 0b101\nh = 0x1F" % (a, b * 1000003, a))
        L.append("print i + b\nprint b * b\nprint f * i\nprint y + y\nprint h\nprint i / 2\nprint 0 - i % 3\nprint f / 2\nprint b % 7")
        L.append("print i.to_float()\nprint f.floor()\nprint f.ceil()\nprint f.round()\nprint i.pow(3)\nprint i.to_str() + \"!\"\nprint y.to_int()\nprint i.abs()")
        L.append("print i << 2\nprint i >> 1\nprint 6 & 3\nprint 6 | 3\nprint 6 xor 3\nprint i > 2 && f < 100.0\nprint !(i == 1) || false")
    prog = "\n".join(L) + "\n"
    return prog, [("exact", "<no model>")], None, False


def shrink(spec):
    for key, small in (("n", 3), ("size", 100)):
        if spec.get(key, small) != small:
            c = dict(spec)
            c[key] = small
            yield c
