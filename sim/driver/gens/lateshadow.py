"""Late shadow (C07): an inner closure uses a variable of an outer scope, and the function in between declares a local of the same
name only AFTER it created that closure.  By the statement the plain assignment creates a local and leaves the captured variable
untouched, so the inner closure keeps denoting the outer variable, by reference.  (The random closure generator emits a shadow only
as the first mention of a name in a body; these four templates cover the other ordering in the configurations where the owner of
the outer variable is still alive.)"""


def generate(rng):
    return {"t": rng.range(1, 4), "a": rng.range(1, 9), "b": rng.range(20, 60), "c": rng.range(100, 150)}


def render(spec):
    t, a, b, c = spec["t"], spec["a"], spec["b"], spec["c"]
    if t == 1:
        prog = ("x = %d\nouter = fn() -> fn() -> int {\n\tinner = fn() -> int {\n\t\treturn x\n\t}\n\tx = %d\n\treturn inner\n}\n"
                "g = outer()\nprint g()\nx = %d\nprint g()\nbump = fn() -> int {\n\tmodify x = x + 10\n\treturn x\n}\nprint bump()\nprint g()\nprint x\n" % (a, b, c))
        out = [a, c, c + 10, c + 10, c + 10]
    elif t == 2:
        prog = ("total = %d\nmk = fn() -> fn() -> int {\n\tadd = fn() -> int {\n\t\tmodify total = total + 1\n\t\treturn total\n\t}\n\ttotal = %d\n\treturn add\n}\n"
                "a = mk()\nprint a()\nprint total\nb = mk()\nprint b()\nprint a()\nprint total\n" % (a, b))
        out = [a + 1, a + 1, a + 2, a + 3, a + 3]
    elif t == 3:
        prog = ("top = fn() -> int {\n\tv = %d\n\tmid = fn() -> fn() -> int {\n\t\tleaf = fn() -> int {\n\t\t\treturn v\n\t\t}\n\t\tv = %d\n\t\treturn leaf\n\t}\n"
                "\th = mid()\n\tv = %d\n\treturn h()\n}\nprint top()\nprint top()\n" % (a, b, c))
        out = [c, c]
    else:
        prog = ("x = %d\nmid = fn(d: int) -> int {\n\tinner = fn(e: int) -> int {\n\t\tmodify x = x + e\n\t\treturn x\n\t}\n\tp = inner(d)\n\tx = %d\n\tq = inner(1)\n"
                "\treturn p * 1000 + q * 10 + x %% 10\n}\nprint mid(2)\nprint x\nx = %d\nprint mid(1)\nprint x\n" % (a, b, c))
        out = [(a + 2) * 1000 + (a + 3) * 10 + b % 10, a + 3, (c + 1) * 1000 + (c + 2) * 10 + b % 10, c + 2]
    return prog, [("exact", str(o)) for o in out], None, False


def shrink(spec):
    return iter(())
