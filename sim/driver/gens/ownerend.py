"""Owner's last word (C07): the owner of a captured variable is a function that returns nothing (or returns by a tail
self-call), lets a closure over one of its locals escape into a module-level list, and assigns to that local in its very LAST
statement(s).  The assignment is made by the owner after the closure was created, so the closure sees it; every execution of the
owner has its own variable.  (The random closure generator ends every body with an explicit `return` of a value, so none of its
owners ends in an assignment, and none recurses.)"""

KINDS = ["plain", "opassign", "two", "modify_other", "if_last", "tailself", "tailself_bump", "callee_keeps"]


def generate(rng):
    return {"t": rng.choice(KINDS), "a": rng.range(1, 9), "b": rng.range(2, 6), "n": rng.range(2, 4)}


def render(spec):
    t, a, b, n = spec["t"], spec["a"], spec["b"], spec["n"]
    head = "keep: [fn() -> int...] = []\n"
    call_all = "".join("g%d = keep[%d]\nprint g%d()\n" % (i, i, i) for i in range(n))
    if t == "plain":
        prog = head + "mk = fn(p: int) {\n\tx = p\n\tkeep.push(fn() -> int {\n\t\treturn x\n\t})\n\tx = p * %d\n}\n" % b
        prog += "".join("mk(%d)\n" % (a + i) for i in range(n)) + call_all
        out = [(a + i) * b for i in range(n)]
    elif t == "opassign":
        prog = head + "mk = fn(p: int) {\n\tx = p\n\tkeep.push(fn() -> int {\n\t\treturn x\n\t})\n\tx += %d\n}\n" % b
        prog += "".join("mk(%d)\n" % (a + i) for i in range(n)) + call_all
        out = [(a + i) + b for i in range(n)]
    elif t == "two":
        prog = head + ("mk = fn(p: int) {\n\tx = p\n\ty = 1\n\tkeep.push(fn() -> int {\n\t\treturn x * 100 + y\n\t})\n\ty = %d\n\tx = p + 1\n}\n" % b)
        prog += "".join("mk(%d)\n" % (a + i) for i in range(n)) + call_all
        out = [(a + i + 1) * 100 + b for i in range(n)]
    elif t == "modify_other":
        # the escaped closure also writes: a second closure created by the same execution sees it, the other executions do not
        prog = head + ("mk = fn(p: int) {\n\tx = p\n\tkeep.push(fn() -> int {\n\t\tmodify x = x + 1\n\t\treturn x\n\t})\n"
                       "\tkeep.push(fn() -> int {\n\t\treturn x\n\t})\n\tx = p * %d\n}\n" % b)
        prog += "".join("mk(%d)\n" % (a + i) for i in range(n))
        prog += "".join("g%d = keep[%d]\nprint g%d()\n" % (i, i, i) for i in range(2 * n))
        out = []
        for i in range(n):
            out += [(a + i) * b + 1, (a + i) * b + 1]
    elif t == "if_last":
        prog = head + ("mk = fn(p: int) {\n\tx = p\n\tkeep.push(fn() -> int {\n\t\treturn x\n\t})\n\tif p > %d {\n\t\tx = p * %d\n\t} else {\n\t\tx = 0 - p\n\t}\n}\n" % (a, b))
        prog += "".join("mk(%d)\n" % (a + i) for i in range(n)) + call_all
        out = [((a + i) * b if (a + i) > a else -(a + i)) for i in range(n)]
    elif t == "tailself":
        # every level of a tail-recursive owner has its own variable
        prog = head + ("rec = fn(k: int) -> int {\n\tcount = k * 101\n\tkeep.push(fn() -> int {\n\t\treturn count\n\t})\n\tif k == 0 {\n\t\treturn 0\n\t}\n\treturn self(k - 1)\n}\n")
        prog += "print rec(%d)\n" % (n - 1) + call_all
        out = [0] + [(n - 1 - i) * 101 for i in range(n)]
    elif t == "tailself_bump":
        prog = head + ("rec = fn(k: int) -> int {\n\tcount = k\n\tkeep.push(fn() -> int {\n\t\tmodify count = count + %d\n\t\treturn count\n\t})\n\tif k == 0 {\n\t\treturn 7\n\t}\n\treturn self(k - 1)\n}\n" % b)
        prog += "print rec(%d)\n" % (n - 1) + call_all + call_all
        lv = [(n - 1 - i) for i in range(n)]
        out = [7] + [v + b for v in lv] + [v + 2 * b for v in lv]
    else:
        # the closure escapes through a callee that keeps it
        prog = head + ("stash = fn(f: fn() -> int) {\n\tkeep.push(f)\n}\nmk = fn(p: int) {\n\tx = p\n\tstash(fn() -> int {\n\t\treturn x\n\t})\n\tx = x * %d + 1\n}\n" % b)
        prog += "".join("mk(%d)\n" % (a + i) for i in range(n)) + call_all
        out = [(a + i) * b + 1 for i in range(n)]
    return prog, [("exact", str(o)) for o in out], None, False


def shrink(spec):
    return iter(())
