"""C20 — `mscript clean DIR` deletes exactly the bytecode files directly in DIR.

World  : a directory tree (depth <= 2) of files / directories / symlinks with names from the
         property's name set, plus bystanders outside DIR.
Plan   : readdir order (every permutation for small directories), benign stream behaviour,
         hard faults on unlink/readdir, kill points.
Oracle : before/after snapshot against a set model (safety under every plan, completeness and
         the reported count under fault-free and benign plans).
"""
import copy
import hashlib
import itertools
import os
import re

import core
import history
from core import Rng, derive

PROP = "C20"

ELIGIBLE_NAMES = ["x.mmm", "y.mmm", "x.transpiled.mmm", "a b.mmm", "a.b.c.mmm", "é.mmm", ".x.mmm",
                  "mmm.mmm", "x.ms.mmm", "X.mmm", "-x.mmm", "x y z.mmm",
                  # names that are not valid UTF-8 (Latin-1 bytes; Python's surrogateescape spelling)
                  "caf\udce9.mmm", "\udcff\udcfemod.mmm"]
OTHER_NAMES = ["x.ms", "y.ms", "x.mmm.bak", ".mmm", "mmm", "x.MMM", "x.mmm~", "x.mmm ", "x.mmm.", "x.Mmm",
               "x.mmmm", "x.mm", "xmmm", "x mmm", "x.mmm.ms", "é.ms", "a b.ms", "x.", "mmm.ms", "x.mmmé",
               "x..mmm.txt", "notes.txt", "Cargo.toml", "caf\udce9.ms"]
KINDS = ["file", "file", "file", "file", "dir", "symlink_file", "symlink_dir", "dangling"]


def eligible_name(name):
    """Extension (text after the last dot, the dot not being the first character) equals mmm."""
    i = name.rfind(".")
    return i > 0 and name[i + 1:] == "mmm"


# ------------------------------------------------------------------ generation

def gen_entry(rng, depth, idx):
    name = rng.choice(ELIGIBLE_NAMES) if rng.chance(1, 2) else rng.choice(OTHER_NAMES)
    kind = rng.choice(KINDS)
    e = {"name": name, "kind": kind}
    if kind == "file":
        e["content"] = "c%d-%s" % (idx, rng.hexbytes(rng.range(0, 6)))
        if rng.chance(1, 4):
            e["mode"] = rng.choice([0o444, 0o440, 0o600, 0o755])
    elif kind == "dir":
        e["children"] = []
        if depth < 2:
            for j in range(rng.range(0, 3)):
                c = gen_entry(rng, depth + 1, idx * 10 + j)
                if c["kind"] == "dir":
                    c["children"] = []
                e["children"].append(c)
    return e


def dedup(entries):
    seen = set()
    out = []
    for e in entries:
        if e["name"] in seen:
            continue
        seen.add(e["name"])
        if e["kind"] == "dir":
            e["children"] = dedup(e.get("children", []))
        out.append(e)
    return out


def gen_tree(rng, max_entries):
    n = rng.range(0, max_entries)
    return dedup([gen_entry(rng, 1, i) for i in range(n)])


def gen_plan(rng, batch, n_entries):
    plan = {"seed": rng.hexbytes(16), "rules": []}
    rules = plan["rules"]
    if batch == "fault_free":
        return plan
    # readdir order: the "." and ".." entries are part of the listing, hence n_entries + 2
    perm = rng.shuffle(range(n_entries + 2))
    rules.append({"id": "perm", "call": "readdir", "pat": "*", "nth": "*", "act": "perm:" + ",".join(map(str, perm))})
    if rng.chance(1, 2):
        rules.append({"id": "wshort", "call": "write", "pat": "<stdout>", "nth": "*",
                      "act": "short:" + ",".join(str(rng.range(1, 9)) for _ in range(4))})
    if rng.chance(1, 3):
        rules.append({"id": "weintr", "call": "write", "pat": "<stdout>", "nth": "%%%d:1" % rng.range(2, 4), "act": "eintr"})
    if batch == "hard":
        k = rng.range(1, max(1, n_entries))
        kind = rng.below(7)
        if kind == 0:
            rules.append({"id": "h", "call": "unlink", "pat": "*", "nth": str(k), "act": "errno:" + rng.choice(["EACCES", "EBUSY", "EIO", "EPERM", "EROFS"])})
        elif kind == 1:
            rules.append({"id": "h", "call": "unlink", "pat": "*", "nth": str(k), "act": "gone"})
        elif kind == 2:
            rules.append({"id": "h", "call": "readdir", "pat": "*", "nth": str(rng.range(1, n_entries + 2)), "act": "errno:EIO"})
        elif kind == 3:
            rules.append({"id": "h", "call": "unlink", "pat": "*", "nth": str(k), "act": "killafter"})
        elif kind == 4:
            rules.append({"id": "h", "call": "unlink", "pat": "*", "nth": str(k), "act": "kill"})
        elif kind == 5:
            rules.append({"id": "h", "call": "write", "pat": "<stdout>", "nth": str(rng.range(1, 6)), "act": "errno:" + rng.choice(["EIO", "ENOSPC", "EPIPE"])})
        else:
            rules.append({"id": "h", "call": "unlink", "pat": "*", "nth": "%d+" % k, "act": "errno:EACCES"})
    return plan


def make_case(cid, batch, tree, outside, spelling, plan, streams="pipes"):
    return {"prop": PROP, "id": cid, "batch": batch, "tree": tree, "outside": outside, "dir": spelling,
            "plan": plan, "streams": streams}


def gen_cases(tier, seed):
    quick = tier == "quick"
    yield from gen_twins(tier, seed)
    yield from history.gen_cases(PROP, "c20", tier, seed, 300 if quick else 4000)
    # 1. exhaustive: all readdir permutations of fixed small directories
    fixed = [
        [{"name": "x.mmm", "kind": "file", "content": "1"}, {"name": "x.ms", "kind": "file", "content": "2"},
         {"name": "d.mmm", "kind": "dir", "children": [{"name": "in.mmm", "kind": "file", "content": "3"}]}],
        [{"name": "a b.mmm", "kind": "file", "content": "1"}, {"name": ".mmm", "kind": "file", "content": "2"},
         {"name": "l.mmm", "kind": "symlink_dir"}],
        [{"name": "x.mmm", "kind": "file", "content": "1"}, {"name": "y.mmm", "kind": "file", "content": "2"},
         {"name": "x.MMM", "kind": "file", "content": "3"}, {"name": "sub", "kind": "dir",
                                                           "children": [{"name": "x.mmm", "kind": "file", "content": "4"}]}],
    ]
    n = 0
    for t, tree in enumerate(fixed):
        size = len(tree) + 2
        if size > (6 if quick else 7):
            continue
        for perm in itertools.permutations(range(size)):
            plan = {"seed": "00" * 16, "rules": [{"id": "perm", "call": "readdir", "pat": "*", "nth": "*",
                                                   "act": "perm:" + ",".join(map(str, perm))}]}
            yield make_case("perm%d-%d" % (t, n), "exhaustive_perm", copy.deepcopy(tree), [], "d", plan)
            n += 1
    # 2. every single name x kind, alone and next to one eligible file
    i = 0
    for name in ELIGIBLE_NAMES + OTHER_NAMES:
        for kind in ["file", "dir", "symlink_file", "symlink_dir", "dangling"]:
            e = {"name": name, "kind": kind}
            if kind == "file":
                e["content"] = "solo"
            if kind == "dir":
                e["children"] = [{"name": "in.mmm", "kind": "file", "content": "inner"}]
            for spelling in (["d", ".", "./d/"] if not quick else ["d", "."]):
                tree = [e] + ([{"name": "keep.mmm", "kind": "file", "content": "k"}] if name != "keep.mmm" else [])
                yield make_case("name%d" % i, "name_kind", copy.deepcopy(tree), [], spelling,
                                {"seed": "11" * 16, "rules": []})
                i += 1
    # 2a. hard links: two names of one file are two files of the directory (each is judged by its own name; removing one
    # name leaves the other name and the content alone), every listing order
    hl = [[{"name": "a.mmm", "kind": "file", "content": "1"}, {"name": "b.mmm", "kind": "hardlink", "to": "a.mmm"}, {"name": "c.ms", "kind": "file", "content": "2"}],
          [{"name": "a.mmm", "kind": "file", "content": "1"}, {"name": "keep.ms", "kind": "hardlink", "to": "a.mmm"}, {"name": "z.mmm", "kind": "file", "content": "3"}],
          [{"name": "x.mmm", "kind": "hardlink", "to": "<target>"}, {"name": "y.mmm", "kind": "file", "content": "4"}, {"name": "x.bak", "kind": "hardlink", "to": "y.mmm"}]]
    for t, tree in enumerate(hl):
        perms = list(itertools.permutations(range(len(tree) + 2)))
        for j, perm in enumerate(perms if not quick else perms[::3]):
            yield make_case("hl%d-%d" % (t, j), "benign", copy.deepcopy(tree), [], "d",
                            {"seed": "22" * 16, "rules": [{"id": "perm", "call": "readdir", "pat": "*", "nth": "*", "act": "perm:" + ",".join(map(str, perm))}]})
    # 2b. directories far larger than the property's 8 entries (the statement itself has no size limit)
    for k in range(24 if quick else 240):
        rng = Rng(derive(seed, PROP, "large", k))
        nfiles = rng.choice([31, 32, 33, 34, 40, 64, 65, 100])
        tree = []
        for j in range(nfiles):
            nm = rng.choice(["f%d.mmm", "g %d.mmm", "h%d.ms", "k%d.mmm.bak", "é%d.mmm"]) % j
            tree.append({"name": nm, "kind": "file", "content": "L%d" % j})
        tree.append({"name": "sub.mmm", "kind": "dir", "children": [{"name": "in.mmm", "kind": "file", "content": "x"}]})
        batch = "benign" if k % 2 else "fault_free"
        prng = Rng(derive(seed, PROP, "largeplan", k))
        yield make_case("L%d" % k, batch, tree, [], "d", gen_plan(prng, batch, len(tree)))
    # 3. random trees x plans
    total = 12000 if quick else 120000
    for k in range(total):
        rng = Rng(derive(seed, PROP, "tree", k))
        max_entries = 8 if not quick else (5 if k % 3 else 8)
        tree = gen_tree(rng, max_entries)
        outside = []
        if rng.chance(1, 2):
            outside = dedup([gen_entry(rng, 2, 90 + j) for j in range(rng.range(1, 3))])
        # DIR as the user spells it: plain, with ./ and trailing slashes, `.` from inside, through a symbolic link to it
        spelling = rng.choice(["d", "d", ".", "./d/", "./d", "d/", "dl", "dl/", "abs", "absgone"])
        batch = rng.weighted([("fault_free", 2), ("benign", 5), ("hard", 3)])
        srng = Rng(derive(seed, PROP, "spell2", k))
        if srng.chance(1, 5):
            # more ways of naming the same directory (a stream of its own, so that the other choices stay what they were):
            # a name with leading or trailing blanks next to a directory with the trimmed name; paths with `.` and `..`
            # components, two leading `..`, `..` behind a symbolic link to a directory elsewhere
            spelling = srng.choice(["ws_trail", "ws_lead", "ws_tab", "up2", "linkup", "d/../d", "./d/.", "dl/../d", "targets/../d", "targets/tdir/../../d/."])
        s3 = Rng(derive(seed, PROP, "spell3", k))
        if s3.chance(1, 15):
            # a directory whose name begins with a tilde is a directory like any other (the shell expands `~`, the tool must not):
            # HOME names another directory, which has bytecode files of its own
            spelling = s3.choice(["tilde", "tilde_name"])
        prng = Rng(derive(seed, PROP, "plan", k))
        plan = gen_plan(prng, batch, len(tree))
        streams = prng.choice(["pipes", "one"])
        c = make_case("r%d" % k, batch, tree, outside, spelling, plan, streams)
        if prng.chance(1, 8):
            c["vars"] = {"CLICOLOR_FORCE": "1"}      # colours forced on although the output is a pipe
        if prng.chance(1, 4):
            # the inherited PWD names another directory than the one the command is started in (env -C, make -C, cwd= of a
            # parent process); that other directory has a `d` with bytecode files of its own
            c["stale_pwd"] = True
        yield c


# ------------------------------------------------------------------- execution

def build_tree(root, entries, target_file, target_dir):
    for e in entries:
        p = os.path.join(root, e["name"])
        k = e["kind"]
        if k == "file":
            with open(p, "w") as f:
                f.write(e.get("content", ""))
            if e.get("mode"):
                os.chmod(p, e["mode"])
        elif k == "dir":
            os.mkdir(p)
            build_tree(p, e.get("children", []), target_file, target_dir)
        elif k == "symlink_file":
            os.symlink(target_file, p)
        elif k == "symlink_dir":
            os.symlink(target_dir, p)
        elif k == "dangling":
            os.symlink("/nonexistent/simworld-dangling", p)
    for e in entries:
        if e["kind"] == "hardlink":
            # a second name of a regular file: of a sibling made above, or of the write-protected file outside DIR
            os.link(target_file if e["to"] == "<target>" else os.path.join(root, e["to"]), os.path.join(root, e["name"]))


def snapshot(root):
    snap = {}
    for dirpath, dirnames, filenames in os.walk(root, followlinks=False):
        for n in dirnames + filenames:
            p = os.path.join(dirpath, n)
            rel = os.path.relpath(p, root)
            mode = "%o" % (os.lstat(p).st_mode & 0o7777)
            if os.path.islink(p):
                snap[rel] = ("link", os.readlink(p))
            elif os.path.isdir(p):
                snap[rel] = ("dir", mode)
            else:
                with open(p, "rb") as f:
                    snap[rel] = ("file", hashlib.sha256(f.read()).hexdigest()[:12] + " mode " + mode)
    return snap


def gen_twins(tier, seed):
    """Two `clean` commands on the same directory: the first is stopped before its k-th unlink (or at its k-th readdir/open),
    the second runs from start to end, the first goes on.  Together they may delete only what is eligible, and whoever
    reports success reports the number of entries it removed itself."""
    n = 0
    for call in ("unlink", "open"):
        for k in (range(1, 7) if tier == "quick" else range(1, 12)):
            for nfiles in (2, 5):
                rng = Rng(derive(seed, PROP, "twins", call, k, nfiles))
                tree = [{"name": "m%d.mmm" % i, "kind": "file", "content": "b%d" % i} for i in range(nfiles)]
                tree += [{"name": "keep.ms", "kind": "file", "content": "s"}, {"name": "sub", "kind": "dir", "children": [{"name": "in.mmm", "kind": "file", "content": "x"}]}]
                yield {"prop": PROP, "id": "w%d" % n, "batch": "twins", "tree": tree, "outside": [], "dir": "d", "plan": {"seed": rng.hexbytes(16), "rules": []},
                       "stall": {"call": call, "nth": k}, "streams": "pipes", "seed_b": rng.hexbytes(16)}
                n += 1


def run_twins(case):
    world = core.fresh_world()
    root = os.path.join(world, "root")
    os.makedirs(os.path.join(root, "d"))
    build_tree(os.path.join(root, "d"), case["tree"], None, None)
    before = snapshot(root)
    rule = {"id": "st", "call": case["stall"]["call"], "pat": "*", "nth": str(case["stall"]["nth"]), "act": "stall"}
    res = {}

    def b_runs():
        res["b"] = core.run_cmd(root, ["clean", "d"], plan={"seed": case["seed_b"], "rules": []})

    a = core.run_cmd(root, ["clean", "d"], plan={"seed": case["plan"]["seed"], "rules": [rule]}, during=b_runs)
    b = res.get("b")
    after = snapshot(root)
    procs = [a] + ([b] if b else [])
    st = core.stats_of(procs, [[rule]] * len(procs))
    st["hash_seeds"] = [case["plan"]["seed"], case["seed_b"]]
    st["shape"] = core.shape_hash("twins", case["stall"], len(case["tree"]))
    st["nontrivial"] = True
    st["sample"] = {"stall": case["stall"], "entries": len(case["tree"])}
    st["probes"] = {"second_process_ran_while_first_was_stopped": 1} if a.get("stalled") else {"stall_point_beyond_the_end_of_the_process": 1}

    def fail(cls, msg):
        return {"ok": False, "class": cls, "msg": msg, "stats": st, "detail": {"before": before, "after": after,
                "a": {"rc": a["rc"], "stdout": core.text(a["out"]), "stderr": core.text(a["err"])[-800:]},
                "b": None if b is None else {"rc": b["rc"], "stdout": core.text(b["out"]), "stderr": core.text(b["err"])[-800:]}}}

    for rel, val in before.items():
        parts = rel.split(os.sep)
        may_go = len(parts) == 2 and parts[0] == "d" and val[0] != "dir" and eligible_name(parts[1])
        if rel not in after and not may_go:
            return fail("deleted-ineligible", "two overlapping clean commands removed %r" % rel)
        if rel in after and after[rel] != val:
            return fail("altered", "two overlapping clean commands altered %r" % rel)
        if rel in after and may_go and val[0] == "file":
            return fail("incomplete", "%r is still there after two clean commands" % rel)
    for who, p in (("first", a), ("second", b)):
        if p is None or p["timeout"]:
            return fail("timeout", "the %s clean command did not terminate" % who)
        if p["rc"] < 0 or p["rc"] == 101 or b"panicked at" in p["err"]:
            return fail("panic", "the %s clean command panicked when entries vanished under it" % who)
        if p["rc"] == 0:
            own = sum(1 for e in p["events"] if e["call"] == "unlink" and e["res"] == 0)
            m = re.search(r"Removed (\d+) files\s*$", core.text(p["out"]))
            if not m:
                return fail("no-report", "the %s clean command exited 0 without reporting a count" % who)
            if int(m.group(1)) != own:
                return fail("wrong-count", "the %s clean command reports %s removed files, it removed %d itself" % (who, m.group(1), own))
    return {"ok": True, "stats": st}


def run_case(case):
    if case.get("batch") == "twins":
        return run_twins(case)
    if case.get("kind") == "hist":
        return history.run_case(case)
    # layout: <world>/root/{d/...(the tree), outside entries, targets/}
    world = core.fresh_world()
    root = os.path.join(world, "root")
    os.makedirs(os.path.join(root, "targets", "tdir"))
    with open(os.path.join(root, "targets", "tfile.mmm"), "w") as f:
        f.write("link target file")
    os.chmod(os.path.join(root, "targets", "tfile.mmm"), 0o444)      # a write-protected link target
    with open(os.path.join(root, "targets", "tdir", "inside.mmm"), "w") as f:
        f.write("inside link target dir")
    tfile = os.path.join(root, "targets", "tfile.mmm")
    tdir = os.path.join(root, "targets", "tdir")
    spelling = case["dir"]
    dn = {"ws_trail": "d ", "ws_lead": " d", "ws_tab": "d\t", "tilde": "~", "tilde_name": "~d"}.get(spelling, "d")
    ddir = os.path.join(root, dn)
    os.mkdir(ddir)
    build_tree(ddir, case["tree"], tfile, tdir)
    build_tree(root, [e for e in case.get("outside", []) if e["name"] not in ("d", "targets", "far", "dl")], tfile, tdir)
    if dn != "d":
        # the directory with the trimmed name exists too, and has bytecode files of its own
        os.mkdir(os.path.join(root, "d"))
        for nm in ("x.mmm", "keep.mmm"):
            with open(os.path.join(root, "d", nm), "w") as f:
                f.write("bytecode of the neighbour")
    if spelling == ".":
        cwd, arg = ddir, "."
    elif spelling in ("abs", "absgone"):
        # DIR named absolutely; "absgone": the command is started in a directory that has been removed since
        cwd, arg = root, ddir
    elif dn != "d":
        cwd, arg = root, dn
    elif spelling == "up2":
        cwd, arg = tdir, "../../d"
    elif spelling == "linkup":
        os.symlink("targets/tdir", os.path.join(root, "far"))
        cwd, arg = root, "far/../../d"
    else:
        cwd, arg = root, spelling
    os.symlink(dn, os.path.join(root, "dl"))
    xenv = dict(case.get("vars") or {})
    if spelling in ("tilde", "tilde_name"):
        for hd in ("home", "homed"):
            os.makedirs(os.path.join(root, hd))
            for nm in ("x.mmm", "keep.mmm"):
                with open(os.path.join(root, hd, nm), "w") as f:
                    f.write("bytecode in the home directory")
        xenv["HOME"] = os.path.join(root, "home")
    if case.get("stale_pwd"):
        decoy = os.path.join(root, "elsewhere")
        os.makedirs(os.path.join(decoy, "d"))
        for nm in ("x.mmm", "keep.mmm"):
            with open(os.path.join(decoy, "d", nm), "w") as f:
                f.write("bytecode of another project")
        os.symlink("d", os.path.join(decoy, "dl"))
        xenv["PWD"] = decoy
    before = snapshot(root)
    plan = case["plan"]
    p = core.run_cmd(cwd, ["clean", arg], plan=plan, streams=case.get("streams", "pipes"), extra_env=xenv, gone_cwd=(spelling == "absgone"))
    after = snapshot(root)
    st = core.stats_of([p], [plan.get("rules", [])])
    fired_hard = any(e["rule"] == "h" for e in p["events"])
    batch = case["batch"]
    st["shape"] = core.shape_hash(sorted((e["name"], e["kind"]) for e in case["tree"]), spelling,
                                  [(r["call"], r["act"], r["nth"]) for r in plan.get("rules", [])])
    st["nontrivial"] = any(eligible_name(e["name"]) for e in case["tree"]) and len(case["tree"]) >= 2
    st["hash_seeds"] = [plan.get("seed")]
    st["sample"] = {"tree": [(e["name"], e["kind"]) for e in case["tree"]], "dir": spelling,
                    "rules": [(r["call"], r["nth"], r["act"]) for r in plan.get("rules", [])]}
    probes = {}
    names = [e for e in case["tree"]]
    if any(e["kind"] == "dir" and eligible_name(e["name"]) for e in names):
        probes["directory_named_mmm_present"] = 1
    if any(e["kind"].startswith("symlink") and eligible_name(e["name"]) for e in names):
        probes["symlink_named_mmm_present"] = 1
    if fired_hard:
        probes["hard_fault_fired"] = 1
    st["probes"] = probes

    def fail(cls, msg):
        return {"ok": False, "class": cls, "msg": msg, "stats": st,
                "detail": {"rc": p["rc"], "stdout": core.text(p["out"]), "stderr": core.text(p["err"])[-2000:],
                           "before": before, "after": after,
                           "events": [(e["call"], e["path"], e["res"], e["errno"], e["rule"]) for e in p["events"]][:200]}}

    if p["timeout"]:
        return fail("timeout", "clean did not terminate")
    # ---- safety, under every plan
    removed = []
    for rel, val in before.items():
        parts = rel.split(os.sep)
        direct_child = len(parts) == 2 and parts[0] == dn
        may_go = direct_child and val[0] != "dir" and eligible_name(parts[1])
        if rel not in after:
            # a missing path below a removed ancestor is attributed to the ancestor
            if may_go:
                removed.append(rel)
            else:
                return fail("deleted-ineligible", "clean removed %r (%s), which is not a bytecode file directly in DIR" % (rel, val[0]))
        elif after[rel] != val:
            return fail("altered", "clean altered %r: %r -> %r" % (rel, val, after[rel]))
    for rel in after:
        if rel not in before:
            return fail("created", "clean created %r" % rel)
    if p["rc"] < 0 and p["rc"] != -999 and not fired_hard:
        return fail("signal", "clean was killed by signal %d" % -p["rc"])
    # ---- completeness and report, when the environment did not fail
    if batch != "hard" or not fired_hard:
        # a symbolic link to a regular file is a file under either reading of "file" (the link itself must go, its target
        # must stay — the latter is part of the safety check above); links to directories and dangling links may stay or go
        left = [rel for rel, val in after.items()
                if rel.count(os.sep) == 1 and rel.startswith(dn + os.sep) and eligible_name(rel.split(os.sep)[1])
                and (val[0] == "file" or (val[0] == "link" and val[1] == tfile))]
        if left:
            return fail("incomplete", "bytecode files left behind without any fault: %r (rc=%d)" % (left, p["rc"]))
        if p["rc"] != 0:
            return fail("exit-status", "clean failed (rc=%d) although the environment did not fail: %s" % (p["rc"], core.text(p["err"])[-300:]))
        out = re.sub(r"\x1b\[[0-9;]*m", "", core.text(p["out"]))      # colours may be forced on
        m = re.search(r"Removed (\d+) files\s*$", out)
        if not m:
            return fail("no-report", "clean did not report the number of removed files: %r" % out[-200:])
        if int(m.group(1)) != len(removed):
            return fail("wrong-count", "clean reported %s removed files, %d entries were actually removed" % (m.group(1), len(removed)))
    else:
        merge = st.setdefault("observations", {})
        key = "hard_fault_exit_%s" % ("nonzero" if p["rc"] != 0 else "zero")
        merge[key] = merge.get(key, 0) + 1
        if b"panicked at" in p["err"] or b"panicked at" in p["out"]:
            merge["hard_fault_panic"] = merge.get("hard_fault_panic", 0) + 1
        if p["rc"] == 0:
            # the environment failed and `clean` reports success all the same: it may fail, it may not succeed wrongly —
            # then DIR must be clean and the number reported must be the number removed
            st["probes"]["hard_fault_absorbed_then_judged"] = 1
            left = [rel for rel, val in after.items()
                    if rel.count(os.sep) == 1 and rel.startswith(dn + os.sep) and eligible_name(rel.split(os.sep)[1])
                    and (val[0] == "file" or (val[0] == "link" and val[1] == tfile))]
            if left:
                return fail("success-but-incomplete", "clean exited 0 after a failed system call and left bytecode files behind: %r" % left)
            m = re.search(r"Removed (\d+) files\s*$", re.sub(r"\x1b\[[0-9;]*m", "", core.text(p["out"])))
            # an entry that somebody else removed between listing and unlink (the `gone` action) was not removed by `clean`
            others = sum(1 for e in p["events"] if e["call"] == "unlink" and e["rule"] == "h" and e["res"] < 0 and e["errno"] == 2)
            if m and int(m.group(1)) != len(removed) - others:
                return fail("wrong-count", "clean reported %s removed files, it removed %d itself" % (m.group(1), len(removed) - others))
    return {"ok": True, "stats": st}


# --------------------------------------------------------------------- shrink

def shrink(case):
    if case.get("batch") == "twins":
        return
    if case.get("kind") == "hist":
        yield from history.shrink(case)
        return
    for i in range(len(case["plan"].get("rules", []))):
        c = copy.deepcopy(case)
        del c["plan"]["rules"][i]
        yield c
    for i in range(len(case["tree"])):
        c = copy.deepcopy(case)
        del c["tree"][i]
        yield c
    for i in range(len(case.get("outside", []))):
        c = copy.deepcopy(case)
        del c["outside"][i]
        yield c
    for i, e in enumerate(case["tree"]):
        if e["kind"] == "dir" and e.get("children"):
            for j in range(len(e["children"])):
                c = copy.deepcopy(case)
                del c["tree"][i]["children"][j]
                yield c
    if case.get("streams") != "pipes":
        c = copy.deepcopy(case)
        c["streams"] = "pipes"
        yield c
    if case.get("stale_pwd"):
        c = copy.deepcopy(case)
        c["stale_pwd"] = False
        yield c
    if case["dir"] not in ("d", "."):
        c = copy.deepcopy(case)
        c["dir"] = "d"
        yield c


def known_finding(case, res):
    return None


RULE = ("random directory trees (depth<=2, <=8 entries, names from the property's set x {file, dir, symlink to file, "
        "symlink to dir, dangling symlink}) plus bystanders outside DIR, DIR spelled ./d/./d//d/ ; plans: fault-free, "
        "benign (readdir permutation, short/EINTR stdout), hard (unlink errno/gone/kill, readdir EIO, stdout errors); all "
        "readdir permutations of three fixed directories; every name x kind alone; project histories (clean inside histories of real compiles, runs, edits and killed commands on a four-module project). distinct = distinct (multiset of "
        "(name,kind), DIR spelling, rule list); non-trivial = at least two entries and at least one eligible name")
LEVEL = "fault_enumeration"
