"""Shared runner for the history-versus-reference-model properties (C07, C08, C13): one generated
program, executed by the real binary under several environments (mode run / compile+execute, hash
seed, collector schedule, benign stream/file rules), every execution compared with the model."""
import copy
import os

import core
import gens
import pipeline
from gens.base import compare_output


def gen_envs(rng, n_envs, quick=True):
    envs = []
    for i in range(n_envs):
        mode = "run" if i % 2 == 0 else "ce"
        ppm = [0, 1000000, 10000, 100000][i % 4] if i < 4 else rng.choice([0, 10000, 100000, 1000000])
        rules = []
        if rng.chance(1, 4):
            rules = pipeline.rw_rules(rng, "e%d" % i)
        env = {"mode": mode, "seed": rng.hexbytes(16), "seed2": rng.hexbytes(16),
               "gc": "%d:%d" % (rng.below(1 << 30), ppm) if ppm else None, "rules": rules}
        if rng.chance(1, 4):
            # artefacts an earlier build left at the paths about to be written
            env["dirty"] = {"kind": rng.choice(["longer", "shorter", "other_program", "garbage", "older_revision", "older_revision"]), "fill": rng.hexbytes(8)}
        # how the program is invoked — none of it may change what the program does:
        # where the project lives (the command is started one level above, so the spelled path contains the name)
        env["subdir"] = rng.weighted([(None, 8), ("job#42", 1), ("sp ace", 1), ("é#x", 1), ("<drafts>", 1)])
        # command-line options (`--verbose` replaces -q/--quick: log records go to stdout and are filtered out)
        env["flags"] = rng.weighted([([], 18), (["--profile"], 2), (["--no-pb"], 2), (["--verbose"], 1)])
        # environment variables
        env["vars"] = rng.weighted([({}, 10), ({"RUST_BACKTRACE": "1"}, 1), ({"TMPDIR": "/dev/shm"}, 1), ({"PWD": "/nonexistent/elsewhere"}, 1),
                                    ({"CLICOLOR_FORCE": "1"}, 1), ({"SIMWORLD_CLOCK": "tick"}, 2)])
        # the command is started in a directory that has been removed since (getcwd fails); files are named absolutely
        if rng.chance(1, 12):
            env["start"] = "gone"
        # the environment fails for good: stdout cannot be written any more from some write on, or no bytecode file can be
        # opened (a read-only or foreign-owned project directory).  The command may fail; if it reports success, what it
        # printed must be what the model prints
        if rng.chance(1, 10):
            env["hard"] = rng.choice([{"id": "h", "call": "write", "pat": "<stdout>", "nth": "%d+" % rng.range(1, 6), "act": "errno:" + rng.choice(["ENOSPC", "EIO"])},
                                      {"id": "h", "call": "open", "pat": "*.mmm", "nth": "*", "act": "rdonly"}])
            if env["hard"]["act"] == "rdonly":
                # ... and what lies there is a loadable artefact: of something else, or of an earlier revision of this project
                env["dirty"] = {"kind": rng.choice(["other_program", "older_revision", "older_revision"]), "fill": rng.hexbytes(8)}
        # crash and restart: the same command was started once before and killed at a planned call (in the middle of writing or
        # loading bytecode, of reading a source, of printing); only what it left on disk survives, and the command is started
        # again.  Drawn from a stream of its own (a function of the environment's hash seed), so that the other choices of
        # this generator are what they were before crashes existed
        sub = core.Rng(core.derive(int(env["seed"][:16], 16), "crash"))
        if sub.chance(1, 5):
            call, pat, hi = sub.weighted([(("write", "*.mmm", 14), 5), (("open", "*.mmm", 6), 2), (("read", "*.mmm", 8), 2),
                                          (("write", "<stdout>", 5), 1), (("read", "*.ms", 4), 1)])
            k = sub.range(1, hi)
            crash = {"stage": "first" if (mode == "run" or call != "read" or pat == "*.ms" or sub.chance(1, 2)) else "execute",
                     "rules": [{"id": "crash", "call": call, "pat": pat, "nth": str(k), "act": sub.choice(["kill", "killafter"])}]}
            if call == "write" and pat == "*.mmm" and sub.chance(1, 2):
                # the write before the kill goes through in part only: a torn record is what the crash leaves behind
                crash["rules"] = [{"id": "crasht", "call": "write", "pat": "*.mmm", "nth": str(k), "act": "short:%d" % sub.range(1, 7)},
                                  {"id": "crash", "call": "write", "pat": "*.mmm", "nth": str(k + 1), "act": "kill"}]
            env["crash"] = crash
        # how the path is spelled on the command line (a stream of its own again): a doubled or dotted separator behind the
        # project directory, a `./`, `.//` or `././` in front of a bare file name
        sp = core.Rng(core.derive(int(env["seed"][:16], 16), "spelling"))
        env["sep"] = sp.weighted([("/", 6), ("//", 1), ("/./", 1)])
        env["prefix"] = sp.weighted([("", 8), ("./", 1), (".//", 1), ("././", 1)])
        # a project directory that has been lived in (its own stream): an earlier revision really run or compiled here, maybe killed
        lv = core.Rng(core.derive(int(env["seed"][:16], 16), "lived"))
        if lv.chance(1, 7) and not env.get("hard") and env.get("start") != "gone":
            env["dirty"] = pipeline.gen_lived(lv)
        envs.append(env)
    return envs


LOG_RECORD = None


def program_output(final, env):
    """stdout of the program itself: without the logger's records (--verbose), the banner printed without -q and the
    profile report.  Colour escapes are tolerated in those parts only: what the program prints is compared as it is."""
    import re
    global LOG_RECORD
    out = core.text(final["out"])
    flags = env.get("flags") or []
    esc = r"(?:\x1b\[[0-9;]*m)*"
    if "--verbose" in flags:
        if LOG_RECORD is None:
            LOG_RECORD = re.compile(r"^" + esc + r"\[ (Trace|Debug|Info|Warning|Warn|Error) \]" + esc + r" .*\n?", re.M)
        out = LOG_RECORD.sub("", out)
        # a record may span several lines; its continuation lines are indented with a tab (stack and variable dumps)
        out = re.sub(r"^\t.*\n?", "", out, flags=re.M)
        # without -q the CLI prints a banner before the program starts
        out = re.sub(r"\A\n*" + esc + r"Compiled in [^\n]*\n\n(" + esc + r"Running\.\.\." + esc + r"\n\n)?", "", out)
    if "--profile" in flags and final["args"][0] == "run":
        out = core.strip_profile(out)
    return out


def invocation(env, files, entry):
    """-> (files as laid out in the world, cwd relative to the world, spelled entry path, run flags, compile flags, extra env)"""
    sub = env.get("subdir")
    if env.get("start") == "gone":
        sub = None
    flags = list(env.get("flags") or [])
    verbose = "--verbose" in flags
    run_flags = ([] if verbose else ["-q"]) + flags
    compile_flags = ["--verbose"] if verbose else ["--quick"]
    if sub:
        files = {sub + "/" + k: v for k, v in files.items()}
        return files, "", sub + env.get("sep", "/") + entry, run_flags, compile_flags, dict(env.get("vars") or {})
    return files, os.path.dirname(entry), (env.get("prefix", "") if env.get("start") != "gone" else "") + os.path.basename(entry), run_flags, compile_flags, dict(env.get("vars") or {})


def run_case(case):
    r = gens.render(case["gen"])
    files, entry, expect, fail = r["files"], r["entry"], r["expect"], r["fail"]
    if expect and expect[0][0] == "exact" and expect[0][1].startswith("<<invalid spec"):
        # an ill-formed spec (only reachable through shrinking): nothing to judge
        return {"ok": True, "stats": {"procs": 0, "shape": "invalid", "nontrivial": False}}
    procs, rules = [], []
    st_probes = {}
    verdict = None
    for i, env in enumerate(case["envs"]):
        erules = env["rules"] + ([env["hard"]] if env.get("hard") else [])
        plan = {"seed": env["seed"], "rules": erules}
        wfiles, rel_cwd, spelled, run_flags, compile_flags, xenv = invocation(env, files, entry)
        gone = env.get("start") == "gone"
        if gone:
            st_probes["started_in_a_removed_directory"] = 1
        if env.get("subdir"):
            st_probes["project_path_contains_hash_or_space"] = 1
        if "--verbose" in run_flags:
            st_probes["verbose_logging_on"] = 1
        if xenv:
            st_probes["environment_variable_" + sorted(xenv)[0]] = 1
        if env["mode"] == "run":
            world = core.fresh_world(wfiles, sub="m%d" % i)
            if env.get("dirty"):
                pipeline.place_dirty(world, env, pipeline.module_artefacts(wfiles, spelled), sources=wfiles, entry=(env["subdir"] + "/" + entry) if (env.get("subdir") and env.get("start") != "gone") else entry,
                                     live=(os.path.join(world, rel_cwd), spelled))
                st_probes["stale_artefacts_present"] = 1
                for a in pipeline.take_lived():
                    procs.append(a)
                    rules.append([env["dirty"]["kill"]] if env["dirty"].get("kill") else [])
                    st_probes["project_directory_lived_in_by_an_older_revision"] = 1
                    if a["rc"] == 137:
                        st_probes["older_revision_killed_at_" + env["dirty"]["kill"]["call"]] = 1
            if gone:
                spelled = os.path.join(world, rel_cwd, spelled)
            if env.get("crash"):
                a = core.run_cmd(os.path.join(world, rel_cwd), ["run", spelled] + run_flags, plan={"seed": env["seed"], "rules": erules + env["crash"]["rules"]},
                                 gc=env["gc"], extra_env=xenv, nofile=env.get("nofile"), gone_cwd=gone)
                a["aux"] = True
                procs.append(a)
                rules.append(env["rules"] + env["crash"]["rules"])
                if a["rc"] == 137:
                    st_probes["crashed_and_restarted_run"] = 1
            p = core.run_cmd(os.path.join(world, rel_cwd), ["run", spelled] + run_flags, plan=plan, gc=env["gc"], extra_env=xenv, nofile=env.get("nofile"),
                             gone_cwd=gone)
            procs.append(p)
            rules.append(env["rules"])
            final = p
        else:
            world = core.fresh_world(wfiles, sub="m%d" % i)
            if env.get("dirty"):
                pipeline.place_dirty(world, env, pipeline.module_artefacts(wfiles, spelled), sources=wfiles, entry=(env["subdir"] + "/" + entry) if (env.get("subdir") and env.get("start") != "gone") else entry,
                                     live=(os.path.join(world, rel_cwd), spelled))
                st_probes["stale_artefacts_present"] = 1
                for a in pipeline.take_lived():
                    procs.append(a)
                    rules.append([env["dirty"]["kill"]] if env["dirty"].get("kill") else [])
                    st_probes["project_directory_lived_in_by_an_older_revision"] = 1
                    if a["rc"] == 137:
                        st_probes["older_revision_killed_at_" + env["dirty"]["kill"]["call"]] = 1
            cwd = os.path.join(world, rel_cwd)
            if gone:
                spelled = os.path.join(cwd, spelled)
            crash = env.get("crash")
            if crash and crash["stage"] == "first":
                a = core.run_cmd(cwd, ["compile", spelled] + compile_flags, plan={"seed": env["seed"], "rules": erules + crash["rules"]},
                                 extra_env=xenv, nofile=env.get("nofile"), gone_cwd=gone)
                a["aux"] = True
                procs.append(a)
                rules.append(env["rules"] + crash["rules"])
                if a["rc"] == 137:
                    st_probes["crashed_and_restarted_compile"] = 1
            c = core.run_cmd(cwd, ["compile", spelled] + compile_flags, plan=plan, extra_env=xenv, nofile=env.get("nofile"), gone_cwd=gone)
            procs.append(c)
            rules.append(env["rules"])
            if c["rc"] != 0:
                final = c
            else:
                if crash and crash["stage"] == "execute":
                    a = core.run_cmd(cwd, ["execute", spelled[:-3] + ".mmm"], plan={"seed": env["seed2"], "rules": erules + crash["rules"]},
                                     gc=env["gc"], extra_env=xenv, nofile=env.get("nofile"), gone_cwd=gone)
                    a["aux"] = True
                    procs.append(a)
                    rules.append(env["rules"] + crash["rules"])
                    if a["rc"] == 137:
                        st_probes["crashed_and_restarted_execute"] = 1
                p = core.run_cmd(cwd, ["execute", spelled[:-3] + ".mmm"],
                                 plan={"seed": env["seed2"], "rules": erules}, gc=env["gc"], extra_env=xenv, nofile=env.get("nofile"), gone_cwd=gone)
                procs.append(p)
                rules.append(env["rules"])
                final = p
        if len(files) > 1:
            opens = [e for e in final["events"] if e["call"] == "open" and e["path"].endswith(".mmm") and (e["req"] & 3) == 0]
            writes = [e for e in final["events"] if e["call"] == "write" and e["path"].endswith(".mmm")]
            if opens and any(e["call"] == "write" and e["path"] == "<stdout>" for e in final["events"][:final["events"].index(opens[-1])]):
                st_probes["module_loaded_from_disk_after_output_started"] = 1
            per = {}
            for e in opens:
                per[e["path"]] = per.get(e["path"], 0) + 1
            if any(v > 1 for v in per.values()):
                st_probes["bytecode_file_opened_more_than_once"] = 1
            if final["args"][0] == "execute" and writes:
                st_probes["execute_wrote_bytecode"] = 1
        hard_hit = any(e["rule"] == "h" for q in procs for e in q["events"])
        if hard_hit:
            st_probes["environment_failed_for_good"] = 1
        if verdict is None and hard_hit and final["rc"] != 0 and not final["timeout"]:
            continue      # the command failed in a failing environment: nothing to judge
        if verdict is None:
            out = program_output(final, env)
            msg = None
            if final["timeout"]:
                msg = ("timeout", "program did not terminate")
            elif final["args"][0] in ("run", "compile") and b"Did not compile successfully" in final["err"]:
                msg = ("compile-error", "the generated program was rejected by the compiler: %s" % out[-600:])
            elif fail is None and final["rc"] != 0:
                msg = ("unexpected-failure", "exit %d, model expects success; stderr: %s | stdout tail: %s"
                       % (final["rc"], core.text(final["err"])[-400:], out[-300:]))
            elif fail is not None and final["rc"] == 0:
                msg = ("missing-failure", "program exited 0 but the model expects a failure (%s)" % fail)
            else:
                d = compare_output(expect, out)
                if d:
                    msg = ("wrong-output", d)
            if msg:
                verdict = (msg[0], "env %d (%s, gc=%s, seed=%s): %s" % (i, env["mode"], env["gc"], env["seed"][:8], msg[1]),
                           {"program": files, "env": env, "rc": final["rc"], "stdout": out[-3000:],
                            "stderr": core.text(final["err"])[-1500:],
                            "expected": [e[1] if e[0] == "exact" else e for e in expect][-60:], "expected_failure": fail})
    st = core.stats_of(procs, rules)
    st["hash_seeds"] = [e["seed"] for e in case["envs"]] + [e["seed2"] for e in case["envs"] if e["mode"] == "ce"]
    st["shape"] = core.shape_hash(case["gen"])
    st["nontrivial"] = len(expect) >= 4
    st["sample"] = {"family": case["gen"]["family"], "spec": case["gen"]["spec"],
                    "envs": [(e["mode"], e["gc"], len(e["rules"])) for e in case["envs"]]}
    st["probes"] = st_probes
    if fail is not None:
        st_probes["history_ends_in_expected_failure"] = 1
    if any(e["gc"] and e["gc"].endswith(":1000000") for e in case["envs"]):
        st_probes["collection_before_every_instruction"] = 1
    if verdict:
        return {"ok": False, "class": verdict[0], "msg": verdict[1], "detail": verdict[2], "stats": st}
    return {"ok": True, "stats": st}


def shrink(case):
    # fewer environments first, then a smaller history
    if len(case["envs"]) > 1:
        for i in range(len(case["envs"])):
            c = copy.deepcopy(case)
            c["envs"] = [case["envs"][i]]
            yield c
    for i, e in enumerate(case["envs"]):
        if e["rules"]:
            c = copy.deepcopy(case)
            c["envs"][i]["rules"] = []
            yield c
        if e["gc"]:
            c = copy.deepcopy(case)
            c["envs"][i]["gc"] = None
            yield c
        if e["mode"] == "ce":
            c = copy.deepcopy(case)
            c["envs"][i]["mode"] = "run"
            yield c
        if e.get("dirty"):
            c = copy.deepcopy(case)
            c["envs"][i]["dirty"] = None
            yield c
        for key, neutral in (("subdir", None), ("flags", []), ("vars", {}), ("start", None), ("hard", None), ("crash", None)):
            if e.get(key):
                c = copy.deepcopy(case)
                c["envs"][i][key] = neutral
                yield c
    for g in gens.shrink(case["gen"]):
        c = copy.deepcopy(case)
        c["gen"] = g
        yield c
