"""Shared runner for the history-versus-reference-model properties (C07, C08, C13): one generated
program, executed by the real binary under several environments (mode run / compile+execute, hash
seed, collector schedule, benign stream/file rules), every execution compared with the model."""
import copy
import os

import core
import gens
import pipeline
from gens.base import compare_output


def gen_envs(rng, n_envs, quick=True):
    envs = []
    for i in range(n_envs):
        mode = "run" if i % 2 == 0 else "ce"
        ppm = [0, 1000000, 10000, 100000][i % 4] if i < 4 else rng.choice([0, 10000, 100000, 1000000])
        rules = []
        if rng.chance(1, 4):
            rules = pipeline.rw_rules(rng, "e%d" % i)
        env = {"mode": mode, "seed": rng.hexbytes(16), "seed2": rng.hexbytes(16),
               "gc": "%d:%d" % (rng.below(1 << 30), ppm) if ppm else None, "rules": rules}
        if rng.chance(1, 4):
            # artefacts an earlier build left at the paths about to be written
            env["dirty"] = {"kind": rng.choice(["longer", "shorter", "other_program", "garbage"]), "fill": rng.hexbytes(8)}
        envs.append(env)
    return envs


def run_case(case):
    r = gens.render(case["gen"])
    files, entry, expect, fail = r["files"], r["entry"], r["expect"], r["fail"]
    if expect and expect[0][0] == "exact" and expect[0][1].startswith("<<invalid spec"):
        # an ill-formed spec (only reachable through shrinking): nothing to judge
        return {"ok": True, "stats": {"procs": 0, "shape": "invalid", "nontrivial": False}}
    procs, rules = [], []
    st_probes = {}
    verdict = None
    for i, env in enumerate(case["envs"]):
        plan = {"seed": env["seed"], "rules": env["rules"]}
        if env["mode"] == "run":
            world = core.fresh_world(files, sub="m%d" % i)
            if env.get("dirty"):
                pipeline.place_dirty(world, env, pipeline.module_artefacts(files, entry))
                st_probes["stale_artefacts_present"] = 1
            p = core.run_cmd(os.path.join(world, os.path.dirname(entry)), ["run", os.path.basename(entry), "-q"], plan=plan, gc=env["gc"])
            procs.append(p)
            rules.append(env["rules"])
            final = p
        else:
            world = core.fresh_world(files, sub="m%d" % i)
            if env.get("dirty"):
                pipeline.place_dirty(world, env, pipeline.module_artefacts(files, entry))
                st_probes["stale_artefacts_present"] = 1
            cwd = os.path.join(world, os.path.dirname(entry))
            c = core.run_cmd(cwd, ["compile", os.path.basename(entry), "--quick"], plan=plan)
            procs.append(c)
            rules.append(env["rules"])
            if c["rc"] != 0:
                final = c
            else:
                p = core.run_cmd(cwd, ["execute", os.path.basename(entry)[:-3] + ".mmm"],
                                 plan={"seed": env["seed2"], "rules": env["rules"]}, gc=env["gc"])
                procs.append(p)
                rules.append(env["rules"])
                final = p
        if len(files) > 1:
            opens = [e for e in final["events"] if e["call"] == "open" and e["path"].endswith(".mmm") and (e["req"] & 3) == 0]
            writes = [e for e in final["events"] if e["call"] == "write" and e["path"].endswith(".mmm")]
            if opens and any(e["call"] == "write" and e["path"] == "<stdout>" for e in final["events"][:final["events"].index(opens[-1])]):
                st_probes["module_loaded_from_disk_after_output_started"] = 1
            per = {}
            for e in opens:
                per[e["path"]] = per.get(e["path"], 0) + 1
            if any(v > 1 for v in per.values()):
                st_probes["bytecode_file_opened_more_than_once"] = 1
            if final["args"][0] == "execute" and writes:
                st_probes["execute_wrote_bytecode"] = 1
        if verdict is None:
            out = core.text(final["out"])
            msg = None
            if final["timeout"]:
                msg = ("timeout", "program did not terminate")
            elif final["args"][0] in ("run", "compile") and b"Did not compile successfully" in final["err"]:
                msg = ("compile-error", "the generated program was rejected by the compiler: %s" % out[-600:])
            elif fail is None and final["rc"] != 0:
                msg = ("unexpected-failure", "exit %d, model expects success; stderr: %s | stdout tail: %s"
                       % (final["rc"], core.text(final["err"])[-400:], out[-300:]))
            elif fail is not None and final["rc"] == 0:
                msg = ("missing-failure", "program exited 0 but the model expects a failure (%s)" % fail)
            else:
                d = compare_output(expect, out)
                if d:
                    msg = ("wrong-output", d)
            if msg:
                verdict = (msg[0], "env %d (%s, gc=%s, seed=%s): %s" % (i, env["mode"], env["gc"], env["seed"][:8], msg[1]),
                           {"program": files, "env": env, "rc": final["rc"], "stdout": out[-3000:],
                            "stderr": core.text(final["err"])[-1500:],
                            "expected": [e[1] if e[0] == "exact" else e for e in expect][-60:], "expected_failure": fail})
    st = core.stats_of(procs, rules)
    st["hash_seeds"] = [e["seed"] for e in case["envs"]] + [e["seed2"] for e in case["envs"] if e["mode"] == "ce"]
    st["shape"] = core.shape_hash(case["gen"])
    st["nontrivial"] = len(expect) >= 4
    st["sample"] = {"family": case["gen"]["family"], "spec": case["gen"]["spec"],
                    "envs": [(e["mode"], e["gc"], len(e["rules"])) for e in case["envs"]]}
    st["probes"] = st_probes
    if fail is not None:
        st_probes["history_ends_in_expected_failure"] = 1
    if any(e["gc"] and e["gc"].endswith(":1000000") for e in case["envs"]):
        st_probes["collection_before_every_instruction"] = 1
    if verdict:
        return {"ok": False, "class": verdict[0], "msg": verdict[1], "detail": verdict[2], "stats": st}
    return {"ok": True, "stats": st}


def shrink(case):
    # fewer environments first, then a smaller history
    if len(case["envs"]) > 1:
        for i in range(len(case["envs"])):
            c = copy.deepcopy(case)
            c["envs"] = [case["envs"][i]]
            yield c
    for i, e in enumerate(case["envs"]):
        if e["rules"]:
            c = copy.deepcopy(case)
            c["envs"][i]["rules"] = []
            yield c
        if e["gc"]:
            c = copy.deepcopy(case)
            c["envs"][i]["gc"] = None
            yield c
        if e["mode"] == "ce":
            c = copy.deepcopy(case)
            c["envs"][i]["mode"] = "run"
            yield c
        if e.get("dirty"):
            c = copy.deepcopy(case)
            c["envs"][i]["dirty"] = None
            yield c
    for g in gens.shrink(case["gen"]):
        c = copy.deepcopy(case)
        c["gen"] = g
        yield c
