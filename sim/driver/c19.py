"""C19 — foreign calls pass the operand stack unchanged and deliver result or error.

World  : hand-written human-readable bytecode (through `transpile`, which is what the CLI offers) that
         pushes an argument vector, executes call_lib on a probe library and prints the result and a
         sentinel line; two probe libraries exporting the same symbols (tags A / B), a library reachable
         only through the loader's search path, a call made from inside a list-callback.
Faults : library file absent, dlopen -> NULL (shim), symbol absent, dlsym -> NULL (shim), callee raises.
Oracle : echoed vector equals the pushed one (kind, value, position), result pushed, library identity,
         and on every fault: non-zero exit that is not a panic, message carried on stderr, nothing after
         the failing call executed, everything before it printed.
"""
import copy
import itertools
import os

import core
from core import Rng, derive

PROP = "C19"
LEVEL = "fault_enumeration"
NEED_PROBE = True
BUDGET = {"quick": 170, "thorough": 1200}

PROBE_A = os.path.join(core.BUILD, "probe", "debug", "libprobe.so")
PROBE_B = os.path.join(core.BUILD, "probe_b", "debug", "libprobe.so")
PROBE_L = os.path.join(core.BUILD, "probe_lazy", "debug", "libprobe.so")

# symbol names around the 64-character mark (the probe exports the first three; the fourth is absent although its
# 63-character prefix is exported)
P63 = "probe_long_" + "x" * 52
LONG_SYMS = {"long63": P63, "long70": P63 + "yyyyyyy", "long71": P63 + "zzzzzzzz", "long_absent64": P63 + "q"}


def own(path):
    """A copy of a probe library that belongs to this worker alone (made once per worker): two workers never open the same
    library file, so whatever a process does to the file it loads (locks, descriptors) cannot reach another worker's case."""
    import shutil
    d = os.path.join(core.process_dir(), ".probes")
    os.makedirs(d, exist_ok=True)
    stt = os.stat(path)
    dst = os.path.join(d, "%s-%d-%d.so" % (os.path.basename(os.path.dirname(os.path.dirname(path))), stt.st_size, int(stt.st_mtime)))
    if not os.path.exists(dst):
        tmp = dst + ".tmp%d" % os.getpid()
        shutil.copyfile(path, tmp)
        os.chmod(tmp, 0o755)
        os.replace(tmp, dst)
    return dst


def real_sym(sym):
    return LONG_SYMS.get(sym, sym)

# kind -> list of (instruction, source text, echo rendering, print rendering)
VALUES = {
    "int": [("make_int", "7", "int:7", "7"), ("make_int", "0", "int:0", "0"), ("make_int", "-1", "int:-1", "-1"),
            ("make_int", "2147483647", "int:2147483647", "2147483647"), ("make_int", "-2147483648", "int:-2147483648", "-2147483648")],
    "bigint": [("make_bigint", "5", "bigint:5", "5"), ("make_bigint", "9223372036854775808", "bigint:9223372036854775808", "9223372036854775808"),
               ("make_bigint", "-12", "bigint:-12", "-12")],
    "float": [("make_float", "2.5", "float:2.5", "2.5"), ("make_float", "-0.5", "float:-0.5", "-0.5"), ("make_float", "100.25", "float:100.25", "100.25")],
    "byte": [("make_byte", "0b101", "byte:5", "0b101"), ("make_byte", "255", "byte:255", "0b11111111"), ("make_byte", "0b1", "byte:1", "0b1")],
    "bool": [("make_bool", "true", "bool:true", "true"), ("make_bool", "false", "bool:false", "false")],
    "str": [("make_str", "x y", 'str:"x y"', "x y"), ("make_str", "é", 'str:"é"', "é"), ("make_str", 'q"t', 'str:"q\\"t"', 'q"t'),
            ("make_str", "a\\b", 'str:"a\\\\b"', "a\\b"), ("make_str", "t\tb", 'str:"t\\tb"', "t\tb"), ("make_str", "plain", 'str:"plain"', "plain")],
}
KINDS = ["int", "bigint", "float", "byte", "bool", "str"]


def hrb_quote(s):
    out = s.replace("\\", "\\\\").replace('"', '\\"').replace("\n", "\\n").replace("\t", "\\t").replace("\r", "\\r")
    return '"%s"' % out


ABS_WORLD = [None]      # set while the program of a case that starts in a removed directory is built


def lib_path(lib):
    p = _lib_path(lib)
    if ABS_WORLD[0] and p.startswith("./"):
        return ABS_WORLD[0] + p[1:]
    return p


def _lib_path(lib):
    return {"a": "./lib/libprobe_a.so", "b": "./lib/libprobe_b.so", "missing": "./lib/nonexistent_probe.so",
            "bare": "libprobe_bare.so",
            # a backslash is an ordinary file-name character here: this file exists, ...
            "bs": "./lib/plug\\libprobe.so",
            # ... this one does not, although a look-alike with a slash does
            "missing_bs": "./lib/vendor\\nolib.so",
            # names that do not end in the platform's extension: a versioned library that exists, and two names that do
            # not exist although a sibling with the same stem and `.so` does
            # a library with one lazily bound reference to an optional helper that is not installed
            "lazy": "./lib/libprobe_l.so",
            # characters that are separators somewhere else (labels `file#function`, search paths, URLs, command lines) are ordinary
            # file-name characters here, in a directory name as well as in the file name
            "hashdir": "./lib/plugins#1/libprobe.so", "hashname": "./lib/libprobe#dbg.so", "spaced": "./lib/my libs/lib probe.so",
            "colon": "./lib/p:q/libprobe@2?.so",
            "versioned": "./lib/libprobe_v.so.1", "missing_dll": "./lib/libprobe_a.dll", "missing_noext": "./lib/libprobe_a"}[lib]


def describe(tag, args):
    return "lib=%s n=%d" % (tag, len(args)) + "".join(" [%d]%s" % (i, VALUES[k][j][2]) for i, (k, j) in enumerate(args))


def build_program(case):
    """-> (HRB text, expected stdout lines, expected failure or None)"""
    L = []
    exp = []
    fail = None
    if case.get("nested"):
        sym = case["nested"]["sym"]
        L += ["function cb", '\targ "0"', '\tstore "x"', '\tload "x"',
              "\tcall_lib %s %s" % (hrb_quote(lib_path("a")), sym), "\tret", "end"]
    pre = "progs/" if case.get("start") == "parent" else ((ABS_WORLD[0] + "/") if ABS_WORLD[0] else "")
    if case.get("fallthrough"):
        # (as in the repository's README example) a function that ends without `ret` and leaves a value on its operand stack;
        # it runs before the foreign calls, which must still see exactly the operands pushed for them
        L += ["function ft", '\tmake_int "4242"', '\tmake_str "left behind"', "end"]
    depth = case.get("depth", 0)
    # the calls run `depth` frames below the module: a chain of functions d1 .. d<depth>, the last one calling `body`
    L.append("function body" if depth else "function __module__")
    if case.get("fallthrough"):
        L += ['\tmake_function "%smain.mmm#ft"' % pre, '\tstore_fast "#1"', '\tload_fast "#1"', "\tcall", "\tvoid"]
    for i, c in enumerate(case["calls"]):
        L += ['\tmake_str "before %d"' % i, '\tprintn "*"', "\tvoid"]
        exp.append("before %d" % i)
        for (k, j) in c["args"]:
            ins, src = VALUES[k][j][0], VALUES[k][j][1]
            L.append("\t%s %s" % (ins, hrb_quote(src)))
        L.append("\tcall_lib %s %s" % (hrb_quote(lib_path(c["lib"])), real_sym(c["sym"])))
        L += ['\tprintn "*"', "\tvoid"]
        tag = {"a": "A", "b": "B", "bare": "A", "bs": "B", "versioned": "B", "lazy": "L", "hashdir": "A", "hashname": "B", "spaced": "A", "colon": "B"}.get(c["lib"])
        fault = c.get("fault")
        if c["lib"] == "missing":
            fail = {"at": i, "needle": "nonexistent_probe.so"}
        elif c["lib"] == "missing_bs":
            fail = {"at": i, "needle": "nolib.so"}
        elif c["lib"] in ("missing_dll", "missing_noext"):
            fail = {"at": i, "needle": "libprobe_a"}
        elif fault == "dlopen_null":
            fail = {"at": i, "needle": os.path.basename(lib_path(c["lib"]))}
        elif c["sym"] in ("probe_absent", "probe_under"):
            # (probe_under: absent, although the library exports `_probe_under`)
            fail = {"at": i, "needle": c["sym"]}
        elif c["sym"] == "long_absent64":
            fail = {"at": i, "needle": real_sym("long_absent64")}
        elif fault == "dlsym_null":
            fail = {"at": i, "needle": c["sym"]}
        elif c["sym"] == "probe_raise":
            fail = {"at": i, "needle": "probe raised <%s>" % describe(tag, c["args"])}
        elif c["sym"] == "probe_raise_multi":
            fail = {"at": i, "needle": ["probe raised first line", "second line <%s>" % describe(tag, c["args"]), "third line"]}
        elif c["sym"] == "probe_raise_blank":
            fail = {"at": i, "needle": "probe raised after a blank line <%s>" % describe(tag, c["args"])}
        elif (c["sym"] in ("probe_first", "probe_last")) and not c["args"]:
            fail = {"at": i, "needle": c["sym"] + ": no arguments"}
        if fail:
            break
        if c["sym"] == "probe_echo":
            exp.append(describe(tag, c["args"]))
        elif c["sym"] in ("long63", "long70", "long71"):
            exp.append(c["sym"] + " " + describe(tag, c["args"]))
        elif c["sym"] == "probe_none":
            exp.append("probe_none " + describe(tag, c["args"]))
            exp.append("")
        elif c["sym"] == "probe_first":
            k, j = c["args"][0]
            exp.append(VALUES[k][j][3])
        elif c["sym"] == "probe_last":
            k, j = c["args"][-1]
            exp.append(VALUES[k][j][3])
        L += ['\tmake_str "after %d"' % i, '\tprintn "*"', "\tvoid"]
        exp.append("after %d" % i)
    if case.get("nested") and not fail:
        n = case["nested"]
        i = len(case["calls"])
        L += ['\tmake_str "before %d"' % i, '\tprintn "*"', "\tvoid"]
        exp.append("before %d" % i)
        L += ['\tmake_vector "%d"' % len(n["list"]), '\tstore_fast "#0"']
        for v in n["list"]:
            L += ['\tmake_int "%d"' % v, '\tvec_op "+#0"']
        L += ['\tdelete_name_reference_scoped "#0"', '\tstore "xs"', '\tmake_function "%smain.mmm#cb"' % pre, '\tstore "f"',
              '\tload "xs"', '\tstore_fast "#1"', '\tload_fast "#1"', '\tlookup "%s"' % n["via"], '\tstore_fast "#2"',
              '\tload "f"', '\tstore_fast "#3"', '\tload_fast "#3"', '\tld_self "#1"', '\tload_fast "#2"', "\tcall",
              '\tstore "ys"', '\tload "ys"', '\tprintn "*"', "\tvoid"]
        if n["sym"] == "probe_raise_on_two" and 2 in n["list"]:
            fail = {"at": i, "needle": "probe raised <lib=A n=1 [0]int:2>"}
        else:
            if n["via"] == "map":
                exp.append("[" + ", ".join(str(v * 10) for v in n["list"]) + "]")
            L += ['\tmake_str "after %d"' % i, '\tprintn "*"', "\tvoid"]
            exp.append("after %d" % i)
    if depth:
        L += ["\tvoid", "\tret", "end"]
        for k in range(depth, 0, -1):
            callee = "body" if k == depth else "d%d" % (k + 1)
            L += ["function d%d" % k, '\tmake_function "%smain.mmm#%s"' % (pre, callee), '\tstore_fast "#1"', '\tload_fast "#1"', "\tcall", "\tvoid",
                  '\tmake_str "back %d"' % k, '\tprintn "*"', "\tvoid", "\tvoid", "\tret", "end"]
            if not fail:
                exp.append("back %d" % k)
        L += ["function __module__", '\tmake_function "%smain.mmm#d1"' % pre, '\tstore_fast "#1"', '\tload_fast "#1"', "\tcall", "\tvoid"]
    L += ["\tret_mod" if case.get("ret_mod") else "\tret", "end"]
    return "\n".join(L) + "\n", exp, fail


# ------------------------------------------------------------------ generation

def mk_plan(rng, benign):
    plan = {"seed": rng.hexbytes(16), "rules": []}
    if benign:
        if rng.chance(1, 2):
            plan["rules"].append({"id": "rs", "call": "read", "pat": "*.mmm", "nth": "*",
                                  "act": "short:" + ",".join(str(rng.choice([1, 3, 7, 64])) for _ in range(3))})
        if rng.chance(1, 3):
            plan["rules"].append({"id": "re", "call": "read", "pat": "*.mmm", "nth": "%3:1", "act": "eintr"})
        if rng.chance(1, 3):
            plan["rules"].append({"id": "os", "call": "write", "pat": "<stdout>", "nth": "*", "act": "short:2,5,1"})
        if rng.chance(1, 2):
            plan["rules"].append({"id": "es", "call": "write", "pat": "<stderr>", "nth": "*", "act": "short:" + ",".join(str(rng.choice([1, 7, 24, 40])) for _ in range(3))})
        if rng.chance(1, 3):
            plan["rules"].append({"id": "ee", "call": "write", "pat": "<stderr>", "nth": "%2:1", "act": "eintr"})
    # nobody reads the report: every write to stderr fails (EPIPE: the reader has gone away; EIO).  The message cannot be
    # carried then, but the program must still stop and fail.  (A stream of its own: the other choices stay what they were.)
    sub = Rng(derive(int(plan["seed"][:16], 16), "stderr-dead"))
    if sub.chance(1, 8):
        plan["rules"].append({"id": "hd", "call": "write", "pat": "<stderr>", "nth": "1+", "act": "errno:" + sub.choice(["EPIPE", "EIO"])})
    return plan


def gen_twins(tier, seed):
    """Two mscript processes call into the same library: the first is stopped at its k-th write to stdout — several of which
    happen INSIDE a foreign function (probe_none prints what it received) — the second runs the same program from start to
    end, the first goes on.  Both must deliver every call."""
    n = 0
    for k in (range(1, 13) if tier == "quick" else range(1, 25)):
        rng = Rng(derive(seed, PROP, "twins", k))
        calls = [{"lib": "a", "sym": "probe_none",
                  "args": [(kk, rng.below(len(VALUES[kk]))) for kk in [rng.choice(KINDS) for _ in range(rng.range(1, 3))]]} for _ in range(3)]
        yield {"prop": PROP, "id": "w%d" % n, "batch": "twins", "calls": calls, "plan": {"seed": rng.hexbytes(16), "rules": []}, "gc": None,
               "stall": {"call": "write", "nth": k}, "seed_b": rng.hexbytes(16)}
        n += 1


def run_twins(case):
    text, exp, fail = build_program(case)
    world = core.fresh_world({"main.transpiled.mmm": text})
    os.mkdir(os.path.join(world, "lib"))
    os.symlink(own(PROBE_A), os.path.join(world, "lib", "libprobe_a.so"))
    os.symlink(own(PROBE_B), os.path.join(world, "lib", "libprobe_b.so"))
    t = core.run_cmd(world, ["transpile", "main.transpiled.mmm"], plan={"seed": case["plan"]["seed"], "rules": []})
    rule = {"id": "st", "call": "write", "pat": "<stdout>", "nth": str(case["stall"]["nth"]), "act": "stall"}
    res = {}

    def b_runs():
        res["b"] = core.run_cmd(world, ["execute", "main.mmm"], plan={"seed": case["seed_b"], "rules": []})

    a = core.run_cmd(world, ["execute", "main.mmm"], plan={"seed": case["plan"]["seed"], "rules": [rule]}, during=b_runs)
    procs = [t, a] + ([res["b"]] if res.get("b") else [])
    st = core.stats_of(procs, [[rule]] * len(procs))
    st["hash_seeds"] = [case["plan"]["seed"], case["seed_b"]]
    st["shape"] = core.shape_hash("twins", case["stall"], [(c["lib"], c["sym"], c["args"]) for c in case["calls"]])
    st["nontrivial"] = True
    st["sample"] = {"stall": case["stall"], "calls": [(c["lib"], c["sym"]) for c in case["calls"]]}
    inside = any(e["call"] == "stall-write" for e in a["events"])
    st["probes"] = {"second_process_ran_while_first_was_stopped": 1} if a.get("stalled") else {"stall_point_beyond_the_end_of_the_process": 1}
    want = "\n".join(exp) + "\n"
    for who, p in (("first", a), ("second", res.get("b"))):
        if p is None or p["timeout"] or p["rc"] != 0 or core.text(p["out"]) != want:
            return {"ok": False, "class": "twin-interference", "stats": st,
                    "msg": "the %s of two processes calling into the same library ended with rc=%s: %s" % (
                        who, None if p is None else p["rc"], None if p is None else core.text(p["err"])[-300:]),
                    "detail": {"bytecode": text, "expected_stdout": exp, "stdout": None if p is None else core.text(p["out"])[-1500:]}}
    return {"ok": True, "stats": st}


def gen_cases(tier, seed):
    quick = tier == "quick"
    n = 0
    yield from gen_twins(tier, seed)
    base_rng = Rng(derive(seed, PROP, "base"))
    # 1. exhaustive: every kind vector of length <= 3 (one representative value per kind, rotated), echo form;
    #    packed 3 calls per program to save processes
    vectors = []
    for ln in range(0, 4):
        for t in itertools.product(range(len(KINDS)), repeat=ln):
            vectors.append([(KINDS[k], (i + k) % len(VALUES[KINDS[k]])) for i, k in enumerate(t)])
    for i in range(0, len(vectors), 3):
        calls = []
        for j, v in enumerate(vectors[i:i + 3]):
            calls.append({"lib": "ab"[(i + j) % 2], "sym": ["probe_echo", "probe_none", "probe_echo"][j % 3], "args": v})
        yield {"prop": PROP, "id": "x%d" % n, "batch": "exhaustive_vectors", "calls": calls, "plan": mk_plan(base_rng, False), "gc": None}
        n += 1
    # 2. every fault case x every position in a history of <= 3 calls x return forms
    faults = ["missing_lib", "dlopen_null", "missing_sym", "dlsym_null", "raise", "first_empty"]
    for f in faults:
        for pos in range(3):
            for form in ("probe_echo", "probe_none", "probe_first"):
                rng = Rng(derive(seed, PROP, "fault", f, pos, form))
                calls = []
                for i in range(pos + 1):
                    args = [(k, rng.below(len(VALUES[k]))) for k in [rng.choice(KINDS) for _ in range(rng.range(1, 4))]]
                    calls.append({"lib": rng.choice("ab"), "sym": form, "args": args})
                c = calls[pos]
                plan = mk_plan(rng, rng.chance(1, 2))
                if f == "missing_lib":
                    c["lib"] = "missing"
                elif f == "dlopen_null":
                    c["fault"] = "dlopen_null"
                    nth = sum(1 for x in calls[:pos + 1] if x["lib"] == c["lib"])
                    plan["rules"].append({"id": "h", "call": "dlopen", "pat": "lib/libprobe_%s.so" % c["lib"], "nth": str(nth), "act": "null"})
                elif f == "missing_sym":
                    c["sym"] = "probe_absent"
                elif f == "dlsym_null":
                    c["fault"] = "dlsym_null"
                    nth = sum(1 for x in calls[:pos + 1] if x["sym"] == c["sym"])
                    plan["rules"].append({"id": "h", "call": "dlsym", "pat": c["sym"], "nth": str(nth), "act": "null"})
                elif f == "raise":
                    c["sym"] = "probe_raise"
                else:
                    c["sym"] = "probe_first"
                    c["args"] = []
                yield {"prop": PROP, "id": "f%d" % n, "batch": "fault_enumeration", "calls": calls, "plan": plan,
                       "gc": "%d:%d" % (rng.below(1 << 20), rng.choice([0, 100000, 1000000])) if rng.chance(1, 2) else None}
                n += 1
    # 3. sampled histories: longer vectors (<= 6), boundary values, all return forms, both libraries, bare library name,
    #    calls from inside list callbacks, faults sprinkled
    total = 2500 if quick else 30000
    for i in range(total):
        rng = Rng(derive(seed, PROP, "hist", i))
        calls = []
        for _ in range(rng.range(1, 4)):
            args = [(k, rng.below(len(VALUES[k]))) for k in [rng.choice(KINDS) for _ in range(rng.range(0, 6))]]
            sym = rng.weighted([("probe_echo", 5), ("probe_none", 2), ("probe_first", 2), ("probe_last", 2), ("probe_raise", 1), ("probe_absent", 1), ("probe_under", 1), ("probe_raise_multi", 1), ("probe_raise_blank", 1),
                                ("long63", 1), ("long70", 1), ("long71", 1), ("long_absent64", 1)])
            lib = rng.weighted([("a", 5), ("b", 5), ("bare", 2), ("lazy", 2), ("missing", 1), ("bs", 2), ("missing_bs", 1), ("versioned", 2), ("missing_dll", 1), ("missing_noext", 1),
                                ("hashdir", 1), ("hashname", 1), ("spaced", 1), ("colon", 1)])
            if sym in ("probe_first", "probe_last") and not args and rng.chance(2, 3):
                args = [("int", 0)]
            calls.append({"lib": lib, "sym": sym, "args": args})
        case = {"prop": PROP, "id": "h%d" % n, "batch": "histories", "calls": calls, "plan": mk_plan(rng, rng.chance(1, 2)),
                "gc": "%d:%d" % (rng.below(1 << 20), rng.choice([10000, 100000, 1000000])) if rng.chance(1, 2) else None,
                "ret_mod": rng.chance(1, 2)}
        if rng.chance(1, 4):
            # (see below) the bytecode file lives in a sub-directory and the command is started one level above it: library names
            # are still relative to the directory the command was started in (look-alikes sit next to the file)
            case["start"] = "parent"
        elif rng.chance(1, 8):
            # the command is started in a directory that has been removed since; bytecode and libraries are named absolutely
            case["start"] = "gone"
        if rng.chance(1, 6):
            case["fallthrough"] = True
        if rng.chance(1, 6):
            case["vars"] = {"RUST_BACKTRACE": "1"}
        if rng.chance(1, 3):
            # how many frames lie between the module and the calls
            case["depth"] = rng.choice([1, 2, 5, 11, 12, 13, 14, 20, 23, 24, 25, 31, 40])
        if rng.chance(1, 4):
            lst = [rng.choice([1, 3, 5, 2, 4]) for _ in range(rng.range(1, 4))]
            case["nested"] = {"sym": "probe_raise_on_two", "list": lst, "via": "map"}
        yield case
        n += 1


# ------------------------------------------------------------------- execution

def run_case(case):
    if case.get("batch") == "twins":
        return run_twins(case)
    gone = case.get("start") == "gone"
    world = core.fresh_world({})
    ABS_WORLD[0] = world if gone else None
    try:
        text, exp, fail = build_program(case)
    finally:
        ABS_WORLD[0] = None
    pre = "progs/" if case.get("start") == "parent" else ""
    os.makedirs(os.path.join(world, "progs"), exist_ok=True) if pre else None
    with open(os.path.join(world, pre + "main.transpiled.mmm"), "w") as f:
        f.write(text)
    os.mkdir(os.path.join(world, "lib"))
    if pre:
        # decoys next to the bytecode file: the other probe under the first library's name, and a file where the missing
        # library would be
        os.mkdir(os.path.join(world, "progs", "lib"))
        os.symlink(own(PROBE_B), os.path.join(world, "progs", "lib", "libprobe_a.so"))
        os.symlink(own(PROBE_A), os.path.join(world, "progs", "lib", "libprobe_b.so"))
        os.symlink(own(PROBE_A), os.path.join(world, "progs", "lib", "nonexistent_probe.so"))
    os.symlink(own(PROBE_A), os.path.join(world, "lib", "libprobe_a.so"))
    os.symlink(own(PROBE_B), os.path.join(world, "lib", "libprobe_b.so"))
    os.symlink(own(PROBE_B), os.path.join(world, "lib", "plug\\libprobe.so"))
    os.symlink(own(PROBE_B), os.path.join(world, "lib", "libprobe_v.so.1"))
    os.symlink(own(PROBE_L), os.path.join(world, "lib", "libprobe_l.so"))
    for d_, nm, which in (("plugins#1", "libprobe.so", PROBE_A), ("", "libprobe#dbg.so", PROBE_B), ("my libs", "lib probe.so", PROBE_A), ("p:q", "libprobe@2?.so", PROBE_B)):
        if d_:
            os.makedirs(os.path.join(world, "lib", d_))
        os.symlink(own(which), os.path.join(world, "lib", d_, nm))
    os.symlink(own(PROBE_B), os.path.join(world, "lib", "plugins"))      # decoys: what is left when the name is cut at the `#`
    os.symlink(own(PROBE_A), os.path.join(world, "lib", "libprobe"))
    os.makedirs(os.path.join(world, "lib", "vendor"))
    os.symlink(own(PROBE_A), os.path.join(world, "lib", "vendor", "nolib.so"))      # the look-alike decoy
    os.mkdir(os.path.join(world, "search"))
    os.symlink(own(PROBE_A), os.path.join(world, "search", "libprobe_bare.so"))
    plan = case["plan"]
    apre = (world + "/") if gone else pre
    t = core.run_cmd(world, ["transpile", apre + "main.transpiled.mmm"], plan={"seed": plan["seed"], "rules": []}, gone_cwd=gone)
    procs = [t]
    st = None

    def finish(p_list):
        s = core.stats_of(p_list, [plan.get("rules", [])] * len(p_list))
        s["hash_seeds"] = [plan["seed"]]
        s["shape"] = core.shape_hash([(c["lib"], c["sym"], c.get("fault"), c["args"]) for c in case["calls"]], case.get("nested"), case.get("depth", 0),
                                     [(r["call"], r["act"]) for r in plan["rules"]])
        s["nontrivial"] = len(case["calls"]) >= 1
        s["sample"] = {"calls": [(c["lib"], c["sym"], c.get("fault"), [VALUES[k][j][2] for k, j in c["args"]]) for c in case["calls"]],
                       "nested": case.get("nested"), "rules": [(r["call"], r["pat"], r["nth"], r["act"]) for r in plan["rules"]]}
        pr = {}
        if fail:
            pr["history_ends_in_fault"] = 1
        if case.get("nested"):
            pr["call_lib_inside_list_callback"] = 1
        if case.get("start") == "parent":
            pr["started_outside_the_bytecode_directory"] = 1
        if case.get("start") == "gone":
            pr["started_in_a_removed_directory"] = 1
        if case.get("vars"):
            pr["environment_variable_RUST_BACKTRACE"] = 1
        if case.get("depth", 0) >= 13 and fail:
            pr["fault_below_13_or_more_frames"] = 1
        if any(c["lib"] == "lazy" for c in case["calls"]):
            pr["library_with_unresolved_lazy_reference"] = 1
        if any(c["sym"].startswith("long") for c in case["calls"]):
            pr["symbol_name_of_63_or_more_characters"] = 1
        if any(c["lib"] == "bare" for c in case["calls"]):
            pr["library_found_through_search_path"] = 1
        s["probes"] = pr
        return s

    def failr(cls, msg, p=None):
        det = {"bytecode": text, "expected_stdout": exp, "expected_failure": fail}
        if p:
            det.update({"rc": p["rc"], "stdout": core.text(p["out"])[-2000:], "stderr": core.text(p["err"])[-2000:],
                        "events": [(e["call"], e["path"], e["res"], e["rule"]) for e in p["events"] if e["call"] in ("dlopen", "dlsym")]})
        return {"ok": False, "class": cls, "msg": msg, "detail": det, "stats": finish(procs)}

    if t["rc"] != 0:
        return failr("transpile-failed", "transpile rejected the hand-written bytecode: %s" % core.text(t["err"])[-300:], t)
    xenv = {"LD_LIBRARY_PATH": os.path.join(world, "search")}
    xenv.update(case.get("vars") or {})
    e = core.run_cmd(world, ["execute", apre + "main.mmm"], plan=plan, gc=case.get("gc"), extra_env=xenv, gone_cwd=gone)
    procs.append(e)
    out = core.text(e["out"])
    lines = out.split("\n")
    if lines and lines[-1] == "":
        lines.pop()
    if e["timeout"]:
        return failr("timeout", "execute did not terminate", e)
    if fail is None:
        if e["rc"] != 0:
            return failr("unexpected-failure", "execute exit %d although no fault was injected: %s" % (e["rc"], core.text(e["err"])[-300:]), e)
        if lines != exp:
            d = next((i for i, (a, b) in enumerate(zip(lines, exp)) if a != b), min(len(lines), len(exp)))
            return failr("wrong-result", "line %d: expected %r, got %r" % (d + 1, exp[d] if d < len(exp) else None, lines[d] if d < len(lines) else None), e)
    else:
        err = core.text(e["err"])
        stderr_dead = any(ev["rule"] == "hd" for ev in e["events"])
        if stderr_dead:
            # the report has nowhere to go: no message can be demanded and a panic over the failed write is not the program's
            # failure mode — but the foreign call still failed: the exit status says so and nothing after it runs
            if e["rc"] == 0:
                return failr("fault-ignored", "exit 0 although call %d must fail (%s) — stderr could not be written" % (fail["at"], fail["needle"]), e)
            if lines[:len(exp)] != exp:
                return failr("lost-output", "output before the failing call is not intact: expected %r, got %r" % (exp, lines), e)
            if len(lines) > len(exp):
                return failr("continued-after-fault", "instructions after the failing call ran: extra output %r" % lines[len(exp):][:3], e)
            st_ = finish(procs)
            st_.setdefault("probes", {})["report_could_not_be_written_stderr_dead"] = 1
            return {"ok": True, "stats": st_}
        if e["rc"] == 0:
            return failr("fault-ignored", "exit 0 although call %d must fail (%s); stdout: %r" % (fail["at"], fail["needle"], lines[-3:]), e)
        if e["rc"] < 0 or e["rc"] == 101 or "panicked at" in err:
            return failr("panic", "the failing foreign call ended in a panic / signal (rc=%d) instead of a run-time error" % e["rc"], e)
        if lines[:len(exp)] != exp:
            return failr("lost-output", "output before the failing call is not intact: expected %r, got %r" % (exp, lines), e)
        if len(lines) > len(exp):
            return failr("continued-after-fault", "instructions after the failing call ran: extra output %r" % lines[len(exp):][:3], e)
        needles = fail["needle"] if isinstance(fail["needle"], list) else [fail["needle"]]
        for nd in needles:
            if nd not in err:
                return failr("message-lost", "the run-time error does not carry the message %r: %s" % (nd, err[-400:]), e)
    return {"ok": True, "stats": finish(procs)}


def shrink(case):
    if case.get("batch") == "twins":
        return
    for i in range(len(case["calls"]) - 1, -1, -1):
        c = copy.deepcopy(case)
        del c["calls"][i]
        if c["calls"] or c.get("nested"):
            yield c
    if case.get("nested"):
        c = copy.deepcopy(case)
        c["nested"] = None
        if c["calls"]:
            yield c
    for i, call in enumerate(case["calls"]):
        for j in range(len(call["args"])):
            c = copy.deepcopy(case)
            del c["calls"][i]["args"][j]
            yield c
    for j in range(len(case["plan"]["rules"])):
        if case["plan"]["rules"][j]["id"] != "h":
            c = copy.deepcopy(case)
            del c["plan"]["rules"][j]
            yield c
    if case.get("gc"):
        c = copy.deepcopy(case)
        c["gc"] = None
        yield c
    for key in ("start", "vars", "fallthrough"):
        if case.get(key):
            c = copy.deepcopy(case)
            c[key] = None
            yield c
    if case.get("depth"):
        for d in (0, case["depth"] // 2, case["depth"] - 1):
            if d < case["depth"]:
                c = copy.deepcopy(case)
                c["depth"] = d
                yield c


def known_finding(case, res):
    return None


RULE = ("hand-written bytecode calling a probe cdylib: exhaustively every kind vector of length <=3 over {int,bigint,float,byte,bool,str} "
        "(3 calls per program, echo and no-value forms, libraries A and B alternating), every fault case {library absent, dlopen NULL, "
        "symbol absent, dlsym NULL, callee raises, callee raises on empty vector} x position 0-2 x return form, and sampled histories of "
        "1-4 calls with vectors up to length 6 over boundary values, both libraries, a library found only through LD_LIBRARY_PATH, "
        "call_lib inside a map callback; environments: hash seeds, short/EINTR reads of the bytecode, short stdout writes, GC schedules. "
        "distinct = distinct (call list, nested, rule kinds); non-trivial = at least one call")


def evidence_extra(tally, tier):
    return {"exhaustive": False, "exhaustive_subspaces": ["kind vectors of length <= 3", "fault case x position <= 2 x return form"]}
