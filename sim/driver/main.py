"""Entry point: ./check <ID> [--tier quick|thorough] | ./check replay <file> | ./check build"""
import importlib
import json
import os
import sys
import time

sys.path.insert(0, os.path.dirname(os.path.abspath(__file__)))
import core  # noqa: E402

MODULES = {"C04": "c04", "C07": "c07", "C08": "c08", "C11": "c11", "C13": "c13", "C17": "c17",
           "C18": "c18", "C19": "c19", "C20": "c20"}


def load(prop):
    return importlib.import_module(MODULES[prop])


def known_lines(prop, mod, known_hits):
    """One KNOWN-FINDING line per listed open finding that was observed."""
    lines = []
    for ent in core.load_known().get("findings", []):
        if ent.get("property") != prop or ent.get("status") != "open":
            continue
        if ent["id"] in known_hits:
            lines.append("KNOWN-FINDING: property=%s %s [%s] (seen in %d case(s) of this run)"
                         % (prop, ent["what"], ent["id"], known_hits[ent["id"]]))
    return lines


def check(prop, tier, seed):
    t0 = time.time()
    mod = load(prop)
    print("simworld: property=%s tier=%s VERIF_SEED=%d" % (prop, tier, seed), flush=True)
    core.cleanup_scratch()
    core.build_all(need_probe=getattr(mod, "NEED_PROBE", False))
    budget = getattr(mod, "BUDGET", {"quick": 150, "thorough": 900})[tier]
    deadline = t0 + budget
    cases = mod.gen_cases(tier, seed)
    known_hits = {}
    tally, failures, herrs = core.run_batch(mod.__name__, cases, deadline=deadline, known=mod.known_finding, known_hits=known_hits)
    if herrs:
        for case, msg in herrs[:3]:
            print("HARNESS-ERROR case=%s: %s" % (case.get("id"), msg), flush=True)
        core.cleanup_scratch()
        return 2
    # ---- triage failures: every failure must end up as a listed known finding or as a reported violation
    for kid, n in getattr(tally, "probes", {}).items():
        if kid.startswith("known:"):
            known_hits[kid[6:]] = known_hits.get(kid[6:], 0) + n
    rc = 0
    reported = 0
    reported_classes = set()
    attempts = 0
    unexplained = None
    for case, res in failures:
        if mod.known_finding(case, res):
            known_hits[mod.known_finding(case, res)] = known_hits.get(mod.known_finding(case, res), 0) + 1
            continue
        if res.get("class") in reported_classes:
            continue
        if reported >= 3 or attempts >= 10:
            if unexplained is None:
                unexplained = (case, res)
            continue
        attempts += 1
        small, small_res = core.minimise(mod, case, res, budget_s=60)
        # replay must reproduce exactly, twice, before it is reported
        r1 = core.run_case_in_dir(mod, small)
        r2 = core.run_case_in_dir(mod, small)
        if r1.get("ok") or r2.get("ok") or r1.get("class") != small_res.get("class") or r2.get("class") != small_res.get("class"):
            # fall back to the unminimised case
            r1 = core.run_case_in_dir(mod, case)
            r2 = core.run_case_in_dir(mod, case)
            if r1.get("ok") or r2.get("ok") or r1.get("class") != res.get("class"):
                print("HARNESS-ERROR: failure of case %s (%s) did not reproduce" % (case.get("id"), res.get("class")), flush=True)
                rc = max(rc, 2)
                continue
            small, small_res = case, r1
        kid = mod.known_finding(small, small_res)
        if kid:
            # the minimised form is a listed finding; other failures of this class still get their own turn
            known_hits[kid] = known_hits.get(kid, 0) + 1
            continue
        path = core.write_replay(prop, seed, small, small_res)
        print("violation class=%s: %s" % (small_res.get("class"), small_res.get("msg")), flush=True)
        print("VIOLATION property=%s replay=%s" % (prop, path), flush=True)
        reported += 1
        reported_classes.add(small_res.get("class"))
        reported_classes.add(res.get("class"))
        rc = max(rc, 1)
    if unexplained is not None and reported == 0:
        # never exit 0 with failures that were neither listed nor examined
        case, res = unexplained
        path = core.write_replay(prop, seed, case, res)
        print("violation class=%s: %s" % (res.get("class"), res.get("msg")), flush=True)
        print("VIOLATION property=%s replay=%s" % (prop, path), flush=True)
        reported += 1
        rc = max(rc, 1)
    for line in known_lines(prop, mod, known_hits):
        print(line, flush=True)
    wall = time.time() - t0
    extra = getattr(mod, "evidence_extra", lambda tally, tier: {})(tally, tier)
    core.write_evidence(prop, tier, seed, mod.LEVEL, tally, wall, mod.RULE, extra=extra, violations=reported,
                        exhaustive=extra.pop("exhaustive", None) if isinstance(extra, dict) else None,
                        known=sorted(known_hits))
    print("simworld: %s %s: %d cases, %d processes, %d distinct non-trivial, %d fault firings, %d forced GCs, %.1fs -> %s"
          % (prop, tier, tally.evaluations, tally.procs, len(tally.nontrivial), sum(tally.fired.values()),
             tally.forced_gc, wall, "OK" if rc == 0 else ("VIOLATION (%d failing cases seen)" % len(failures) if rc == 1 else "HARNESS ERROR")), flush=True)
    core.cleanup_scratch()
    return rc


def replay(path):
    with open(path) as f:
        doc = json.load(f)
    prop = doc["property"]
    mod = load(prop)
    core.build_all(need_probe=getattr(mod, "NEED_PROBE", False))
    res = core.run_case_in_dir(mod, doc["case"])
    core.cleanup_scratch()
    if res.get("ok"):
        print("replay: case passes (no violation) on the current tree")
        return 0
    print("replay: class=%s: %s" % (res.get("class"), res.get("msg")))
    print(json.dumps(res.get("detail"), indent=1, default=str)[:6000])
    if res.get("class") == doc.get("violation_class"):
        print("VIOLATION property=%s replay=%s" % (prop, path))
        return 1
    print("replay: a different violation class than recorded (%s)" % doc.get("violation_class"))
    return 1


def main(argv):
    try:
        if len(argv) >= 2 and argv[0] == "replay":
            return replay(argv[1])
        if argv and argv[0] == "build":
            core.build_all(need_probe=True)
            print("build ok")
            return 0
        prop = argv[0]
        tier = os.environ.get("VERIF_TIER", "quick")
        if "--tier" in argv:
            tier = argv[argv.index("--tier") + 1]
        if tier not in ("quick", "thorough"):
            tier = "quick"
        try:
            seed = int(os.environ.get("VERIF_SEED", "1"))
        except ValueError:
            seed = 1
        return check(prop, tier, seed)
    except core.HarnessError as e:
        print("HARNESS-ERROR: %s" % e, flush=True)
        return 2


if __name__ == "__main__":
    sys.exit(main(sys.argv[1:]))
