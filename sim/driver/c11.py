"""C11 — modules initialise exactly once, in import order, and share one instance."""
import copy
import os

import core
import gens
import modelcheck
import pipeline
from core import Rng, derive

PROP = "C11"
LEVEL = "exploration"
BUDGET = {"quick": 170, "thorough": 1500}


def envs_for(rng, n, quick):
    envs = modelcheck.gen_envs(rng, n, quick)
    for e in envs:
        if rng.chance(1, 2) and not e["rules"]:
            e["rules"] = pipeline.rw_rules(rng, "l")
        if rng.chance(1, 3):
            e["dirty"] = {"kind": rng.choice(["longer", "shorter", "other_program", "garbage", "older_revision"]), "fill": rng.hexbytes(8)}
    return envs


def gen_cases(tier, seed):
    quick = tier == "quick"
    total = 3000 if quick else 36000
    for i in range(total):
        rng = Rng(derive(seed, PROP, "graph", i))
        spec = gens.modules.generate(rng, max_mods=4 if (quick and i % 3) else 5)
        g = {"family": "modules", "spec": spec, "unordered": False}
        erng = Rng(derive(seed, PROP, "env", i))
        yield {"prop": PROP, "id": "g%d" % i, "batch": "graphs", "gen": g, "envs": envs_for(erng, 4 if quick else 6, quick)}
    # wide graphs: the entry imports 30-60 modules, under a limit on open descriptors far below that number — what a module
    # needs while it is loaded must be given back when it is loaded
    for i in range(8 if quick else 40):
        rng = Rng(derive(seed, PROP, "wide", i))
        nmod = rng.choice([30, 45, 60])
        mods = [{"dir": "", "stmts": [["say", "a0"]] + [["import", j, "mod"] for j in range(1, nmod + 1)]}]
        mods += [{"dir": "", "stmts": [["say", "q%d" % (j % 7)]]} for j in range(1, nmod + 1)]
        g = {"family": "modules", "spec": {"mods": mods}, "unordered": False}
        envs = modelcheck.gen_envs(rng, 2, quick)
        for e in envs:
            e["nofile"] = rng.choice([20, 24, 28])
            e["flags"] = []          # (logging every instruction of 60 module loads is slow, and beside the point here)
        yield {"prop": PROP, "id": "w%d" % i, "batch": "wide", "gen": g, "envs": envs}
    for i in range(400 if quick else 4000):
        rng = Rng(derive(seed, PROP, "neg", i))
        spec = gens.modules.generate(rng, max_mods=4, negative=True)
        g = {"family": "modules", "spec": spec, "unordered": False}
        yield {"prop": PROP, "id": "n%d" % i, "batch": "negative", "gen": g, "negative": True, "seed": rng.hexbytes(16)}


def run_negative(case):
    r = gens.render(case["gen"])
    neg = r.get("negative")
    st = {"procs": 0, "shape": core.shape_hash(case["gen"]), "nontrivial": neg is not None,
          "sample": {"negative": neg, "files": sorted(r["files"])}}
    if neg is None:
        st["nontrivial"] = False
        return {"ok": True, "stats": st}
    procs = []
    for cmd in (["compile", "main.ms", "--quick"], ["run", "main.ms", "-q"]):
        world = core.fresh_world(r["files"], sub="neg")
        p = core.run_cmd(world, cmd, plan={"seed": case["seed"], "rules": []})
        procs.append(p)
        out = core.text(p["out"])
        msg = None
        if p["rc"] == 0:
            msg = ("accepted", "`%s` accepted a program in which %s:%d performs `%s`" % (" ".join(cmd), neg["file"], neg["line"], neg["kind"]))
        elif "enter " in out:
            msg = ("ran-anyway", "module code ran although the program must be rejected: %r" % out[:200])
        elif b"panicked at" in p["err"]:
            msg = ("panic", "the compiler panicked instead of reporting a diagnostic: %s" % core.text(p["err"])[-300:])
        elif ("%s:%d:" % (os.path.basename(neg["file"]), neg["line"])) not in out:
            # diagnostic only: the statement does not prescribe the wording or position of the compiler's message
            st.setdefault("probes", {})["negative_diagnostic_without_file_line"] = 1
        if msg:
            s2 = core.stats_of(procs)
            s2.update(st)
            return {"ok": False, "class": "negative-" + msg[0], "msg": msg[1], "stats": s2,
                    "detail": {"program": r["files"], "negative": neg, "rc": p["rc"], "stdout": out[-2000:], "stderr": core.text(p["err"])[-1000:]}}
    s2 = core.stats_of(procs)
    s2.update(st)
    s2["probes"] = dict(st.get("probes", {}))
    s2["probes"]["negative_" + neg["kind"]] = 1
    return {"ok": True, "stats": s2}


def run_case(case):
    if case.get("negative"):
        return run_negative(case)
    return modelcheck.run_case(case)


def shrink(case):
    if case.get("negative"):
        for g in gens.shrink(case["gen"]):
            c = copy.deepcopy(case)
            c["gen"] = g
            yield c
        return
    yield from modelcheck.shrink(case)


def known_finding(case, res):
    return None


RULE = ("import DAGs over 2-5 modules (entry included) placed in the project root or one sub-directory, every edge in `import m`, "
        "`import a, b from m` or both forms, import statements placed before/between/after side-effecting statements and the module's "
        "own state, exported counter cells (list and closure-bumped int), exported functions reaching into further modules; every module "
        "prints enter/leave and the counters it observes through each import form. Environments: run and compile+execute, short/EINTR "
        "rules on the lazy .mmm loads and on compile's writes, stale/garbage artefacts, hash seeds, GC. Oracle: DFS-with-visited-set "
        "reference model. Negative batch: import of a hidden/absent name, m.hidden, assignment to the module name, to an exported member "
        "by = and op=: must be rejected (non-zero exit, no panic) before any module code runs; whether the diagnostic names file and line is recorded as a probe only. distinct = distinct specs")
