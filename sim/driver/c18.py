"""C18 — raw-text -> transpile -> execute behaves like `run`.

Processes: R = `run x.ms -q`; C = `compile x.ms --output-format raw-text --quick`; (rename x.mmm ->
x.transpiled.mmm); T = `transpile x.transpiled.mmm`; E = `execute x.mmm`.  Variant: the CLI shortcut
`execute x.transpiled.mmm --transpile`.
Binding oracle: stdout and exit class of the pipeline equal those of `run`; with one hash seed in R and C
the instruction streams loaded by E equal those loaded by R (every opcode and argument carried over).
"""
import copy
import os
import re

import core
import history
import pipeline
from core import Rng, derive

PROP = "C18"
LEVEL = "exploration"
BUDGET = {"quick": 170, "thorough": 1500}


def single_module(top, entry):
    src = pipeline.load_example(top).get(entry, b"")
    return re.search(rb"^\s*import\s", src, re.M) is None


def opcode_table():
    """(name, id) pairs of the interpreter's instruction table, read from the source at check time."""
    import os
    with open(os.path.join(core.REPO, "bytecode", "src", "instruction_constants.rs")) as f:
        return [(name.lower(), int(num)) for name, num in re.findall(r"^\s+([A-Z][A-Z0-9_]+)\s+(\d+)\s*$", f.read(), re.M)]


TWIN_PROGRAM = "".join("f%d = fn(a: int) -> int {\n\tprint \"in f%d \" + a\n\treturn a * %d + %d\n}\n" % (i, i, i + 2, i) for i in range(8)) + \
    "acc = 1\n" + "".join("acc = f%d(acc) %% 1000\n" % i for i in range(8)) + "print acc\nprint \"done\"\n"


def gen_twins(tier, seed):
    """Two `transpile` commands work on the same file in the same directory: the first is stopped at its k-th write (or open),
    the second runs from start to end, the first goes on.  Whatever the file holds then must execute like the source runs."""
    ks = range(1, 25) if tier == "quick" else range(1, 80)
    n = 0
    for call in ("write", "open"):
        for k in ks:
            rng = Rng(derive(seed, PROP, "twins", call, k))
            yield {"prop": PROP, "id": "w%d" % n, "batch": "twins", "kind": "twins", "stall": {"call": call, "nth": k},
                   "seed_a": rng.hexbytes(16), "seed_b": rng.hexbytes(16)}
            n += 1


def run_twins(case):
    world = core.fresh_world({"main.ms": TWIN_PROGRAM}, sub="tw")
    procs = []

    def cmd(args, seed, **kw):
        p = core.run_cmd(world, args, plan={"seed": seed, "rules": kw.pop("rules", [])}, **kw)
        procs.append(p)
        return p

    r = cmd(["run", "main.ms", "-q"], case["seed_a"])
    c = cmd(["compile", "main.ms", "--output-format", "raw-text", "--quick"], case["seed_a"])
    os.replace(os.path.join(world, "main.mmm"), os.path.join(world, "main.transpiled.mmm"))
    rule = {"id": "st", "call": case["stall"]["call"], "pat": "*", "nth": str(case["stall"]["nth"]), "act": "stall"}
    res = {}

    def b_runs():
        res["b"] = cmd(["transpile", "main.transpiled.mmm"], case["seed_b"])

    a = cmd(["transpile", "main.transpiled.mmm"], case["seed_a"], rules=[rule], during=b_runs)
    e = cmd(["execute", "main.mmm"], case["seed_a"])
    st = core.stats_of(procs, [[rule]] * len(procs))
    st["hash_seeds"] = [case["seed_a"], case["seed_b"]]
    st["shape"] = core.shape_hash("twins", case["stall"])
    st["nontrivial"] = True
    st["sample"] = {"stall": case["stall"]}
    st["probes"] = {"second_process_ran_while_first_was_stopped": 1} if a.get("stalled") else {"stall_point_beyond_the_end_of_the_process": 1}
    bad = None
    if r["rc"] != 0 or c["rc"] != 0:
        bad = "the twin program does not run or compile on its own (rc %d / %d)" % (r["rc"], c["rc"])
    elif a["rc"] != 0 or res.get("b") is None or res["b"]["rc"] != 0:
        bad = "a transpile command failed although nothing but a second transpile of the same file happened (rc %s / %s): %s" % (
            a["rc"], None if res.get("b") is None else res["b"]["rc"], core.text(a["err"])[-200:])
    elif e["rc"] != 0 or e["out"] != r["out"]:
        bad = "after two overlapping transpile commands `execute` ends with rc=%d and prints %r, `run` printed %r" % (
            e["rc"], core.text(e["out"])[-200:], core.text(r["out"])[-200:])
    if bad:
        return {"ok": False, "class": "twin-interference", "msg": bad, "stats": st,
                "detail": {"stall": case["stall"], "stderr": core.text(e["err"])[-1500:]}}
    return {"ok": True, "stats": st}


def gen_cases(tier, seed):
    quick = tier == "quick"
    n = 0
    yield from gen_twins(tier, seed)
    yield from history.gen_text_cases(PROP, tier, seed, 400 if quick else 6000)
    # the name -> opcode table: hand-written text bytecode naming every instruction once, in a function that never runs
    for r in range(4 if quick else 16):
        rng = Rng(derive(seed, PROP, "optable", r))
        yield {"prop": PROP, "id": "o%d" % r, "batch": "opcode_table", "kind": "optable", "arg": rng.choice(["a", "b c", 'q"t', "é", "t\tb", ""]),
               "same_seed": True, "env": pipeline.gen_env(rng, "benign" if r else "fault_free", 4, same_seed=True)}
    entries = [e for e in pipeline.corpus_entries() if e not in pipeline.SLOW_OR_UNSTABLE and single_module(*e)]
    reps = 3 if quick else 12
    for (top, entry) in entries:
        for r in range(reps):
            rng = Rng(derive(seed, PROP, "corpus", top, entry, r))
            batch = ["fault_free", "benign", "benign", "hard"][r % 4]
            same = r % 2 == 0
            yield {"prop": PROP, "id": "c%d" % n, "batch": batch, "kind": "corpus", "example": top, "entry": entry,
                   "same_seed": same, "shortcut": r % 3 == 2, "env": pipeline.gen_env(rng, batch, 4, same_seed=same)}
            n += 1
    # entry names with dots, spaces and other odd characters (the output path is derived from the input path twice)
    for i, name in enumerate(["shapes.v2.ms", "a.b.c.ms", "x.transpiled.ms", "my prog.ms", "a#b.ms", "é.ms", "d.ms", "UPPER.ms"]):
        rng = Rng(derive(seed, PROP, "name", i))
        yield {"prop": PROP, "id": "n%d" % n, "batch": "fault_free", "kind": "string", "s": "plain", "raw": False, "form": 2, "entry": name,
               "same_seed": True, "shortcut": False, "env": pipeline.gen_env(rng, "fault_free", 4, same_seed=True)}
        n += 1
    maxlen = 3 if quick else 4
    k = 0
    for s in pipeline.all_strings(maxlen):
        rng = Rng(derive(seed, PROP, "string", k))
        variants = [(k % 2 == 1, k % 3)] if quick else [(False, k % 3), (True, (k + 1) % 3)]
        for raw, form in variants:
            batch = "fault_free" if rng.chance(3, 4) else "benign"
            yield {"prop": PROP, "id": "s%d" % n, "batch": batch, "kind": "string", "s": s, "raw": raw, "form": form,
                   "same_seed": True, "shortcut": rng.chance(1, 8), "env": pipeline.gen_env(rng, batch, 4, same_seed=True)}
            n += 1
        k += 1
    for j, s in enumerate(pipeline.odd_strings()):
        for form in ((j % 3,) if quick else (0, 1, 2)):
            rng = Rng(derive(seed, PROP, "odd", j, form))
            batch = "fault_free" if rng.chance(1, 2) else "benign"
            yield {"prop": PROP, "id": "u%d" % n, "batch": batch, "kind": "string", "s": s, "raw": True, "form": form,
                   "same_seed": True, "shortcut": rng.chance(1, 8), "env": pipeline.gen_env(rng, batch, 4, same_seed=True)}
            n += 1
    for (name, tfiles, tentry) in pipeline.test_programs():
        if len(tfiles) != 1:
            continue
        for r in range(2 if quick else 6):
            rng = Rng(derive(seed, PROP, "testsrc", name, r))
            batch = ["fault_free", "benign", "benign", "hard"][r % 4]
            same = r % 2 == 0
            yield {"prop": PROP, "id": "t%d" % n, "batch": batch, "kind": "testsrc", "name": name,
                   "same_seed": same, "shortcut": r % 3 == 2, "env": pipeline.gen_env(rng, batch, 4, same_seed=same)}
            n += 1
    try:
        import gens
    except ImportError:
        gens = None
    if gens is not None:
        total = 3500 if quick else 36000
        for i in range(total):
            rng = Rng(derive(seed, PROP, "gen", i))
            g = gens.generate(rng, derive(seed, PROP, "genprog", i), single_module=True)
            batch = rng.weighted([("fault_free", 2), ("benign", 6), ("hard", 2)])
            same = rng.chance(1, 2)
            yield {"prop": PROP, "id": "g%d" % n, "batch": batch, "kind": "gen", "gen": g, "same_seed": same,
                   "shortcut": rng.chance(1, 6), "env": pipeline.gen_env(rng, batch, 4, same_seed=same)}
            n += 1


def count_records(text_form):
    lines = text_form.split(b"\n")
    f = sum(1 for l in lines if l.startswith(b"function "))
    e = sum(1 for l in lines if l.strip() == b"end")
    return f, e


def hrb_quote(s):
    return '"%s"' % s.replace("\\", "\\\\").replace('"', '\\"').replace("\n", "\\n").replace("\t", "\\t").replace("\r", "\\r")


def run_optable(case):
    table = [(n_, i) for n_, i in opcode_table() if n_ not in ("nop", "char", "endif")]
    arg = case["arg"]
    L = ["function unused"]
    for name, _ in table:
        L.append("\t%s %s %s" % (name, hrb_quote(arg), hrb_quote("z")))
    L += ["end", "function __module__", '\tmake_str "table ok"', '\tprintn "*"', "\tvoid", "\tret", "end"]
    env = case["env"]
    world = core.fresh_world({"t.transpiled.mmm": "\n".join(L) + "\n"})
    t = core.run_cmd(world, ["transpile", "t.transpiled.mmm"], plan=env["plans"][1])
    procs = [t]
    st = None
    msg = None
    if t["rc"] != 0:
        msg = ("transpile-failed", "transpile rejected a file naming every instruction of the table: %s" % core.text(t["err"])[-300:])
    else:
        e = core.run_cmd(world, ["execute", "t.mmm"], plan=env["plans"][2], gc=env["gc"][2], dump=True)
        procs.append(e)
        if e["rc"] != 0 or core.text(e["out"]) != "table ok\n":
            msg = ("exit-differs", "executing the transpiled table file failed: rc=%d %s" % (e["rc"], core.text(e["err"])[-300:]))
        else:
            want = [' function "unused"'] + ["  %d %s" % (i, json_list([arg, "z"])) for _, i in table]
            dump = e.get("dump", "").split("\n")
            try:
                k = dump.index(' function "unused"')
                got = dump[k:k + len(want)]
            except ValueError:
                got = []
            if got != want:
                diff = next(((a, b) for a, b in zip(got, want) if a != b), (len(got), len(want)))
                msg = ("instructions-differ", "name -> opcode / argument mapping of the transpiler differs from the instruction table: got %r, want %r" % diff)
    allrules = [r_ for pl in env["plans"] for r_ in pl["rules"]]
    st = core.stats_of(procs, [allrules] * len(procs))
    st["shape"] = core.shape_hash("optable", arg, [[(r_["call"], r_["act"].split(":")[0]) for r_ in pl["rules"]] for pl in env["plans"]])
    st["nontrivial"] = True
    st["sample"] = {"kind": "optable", "argument": arg, "instructions": len(table)}
    st["probes"] = {"opcode_table_file": 1}
    if msg:
        return {"ok": False, "class": msg[0], "msg": msg[1], "stats": st, "detail": {"bytecode": "\n".join(L)[:3000]}}
    return {"ok": True, "stats": st}


def json_list(items):
    """Rust's {:?} of a Box<[String]> for the argument vocabulary used here."""
    def esc(x):
        return '"%s"' % x.replace("\\", "\\\\").replace('"', '\\"').replace("\t", "\\t").replace("\n", "\\n")
    return "[" + ", ".join(esc(x) for x in items) + "]"


def run_case(case):
    if case["kind"] == "twins":
        return run_twins(case)
    if case["kind"] == "texthist":
        return history.run_text_case(case)
    if case["kind"] == "optable":
        return run_optable(case)
    files, entry = pipeline.case_files(case)
    env = case["env"]
    dump = bool(case.get("same_seed"))
    R = pipeline.leg_run(files, entry, env, 0, dump=dump)
    TX, text_form = pipeline.leg_transpile_execute(files, entry, env, 1, dump=dump, shortcut=bool(case.get("shortcut")))
    aux = pipeline.take_aux()
    procs = R + TX + aux
    allrules = [r for pl in env["plans"] for r in pl["rules"]] + ((env.get("crash") or {}).get("rules") or [])
    st = core.stats_of(procs, [allrules] * len(procs))
    st["hash_seeds"] = [pl["seed"] for pl in env["plans"]]
    desc = case.get("example", "") + "/" + case.get("entry", "") if case["kind"] == "corpus" else \
        (repr(case["s"]) if case["kind"] == "string" else (case["name"] if case["kind"] == "testsrc" else case["gen"].get("family", "gen")))
    st["shape"] = core.shape_hash(case["kind"], desc, case.get("raw"), case.get("form"), case.get("gen"), case.get("shortcut"),
                                  [[(r["call"], r["pat"], r["act"].split(":")[0]) for r in pl["rules"]] for pl in env["plans"]],
                                  bool(env.get("dirty")), [bool(g) for g in env["gc"]])
    st["sample"] = {"kind": case["kind"], "what": desc, "batch": case["batch"], "shortcut": bool(case.get("shortcut")),
                    "rules": [[(r["call"], r["pat"], r["nth"], r["act"]) for r in pl["rules"]] for pl in env["plans"]],
                    "gc": env["gc"], "dirty": env.get("dirty")}
    r = R[0]
    comp = TX[0]
    tr = [p for p in TX if p["args"][0] == "transpile"]
    exe = [p for p in TX if p["args"][0] == "execute"]
    st["nontrivial"] = bool(exe) and len(r["out"]) > 0
    st["probes"] = {}
    for a in aux:
        if a.get("crashed"):
            st["probes"]["crashed_and_restarted_" + a["args"][0]] = 1
    if env.get("dirty"):
        st["probes"]["transpiler_output_preexisting"] = 1
    if case.get("shortcut"):
        st["probes"]["execute_transpile_shortcut"] = 1

    def fail(cls, msg):
        det = {"source_files": {k: core.text(v) if isinstance(v, bytes) else v for k, v in files.items()} if len(files) < 8 else sorted(files),
               "entry": entry, "text_form": core.text(text_form or b"")[-3000:]}
        for name, plist in (("run", [r]), ("compile", [comp]), ("transpile", tr), ("execute", exe)):
            for p in plist:
                det[name] = {"rc": p["rc"], "stdout": core.text(p["out"])[-1500:], "stderr": core.text(p["err"])[-1500:],
                             "fired": sorted({e["rule"] for e in p["events"] if e["rule"] != "-"})}
        return {"ok": False, "class": cls, "msg": msg, "stats": st, "detail": det}

    if pipeline.hard_fired(procs):
        obs = st.setdefault("observations", {})
        for name, plist in (("run", [r]), ("compile", [comp]), ("transpile", tr), ("execute", exe)):
            for p in plist:
                if any(e["rule"] == "h" for e in p["events"]):
                    key = "hard_fault_in_%s_%s" % (name, "panic" if (b"panicked at" in p["err"]) else ("clean_error" if p["rc"] != 0 else "unaffected"))
                    obs[key] = obs.get(key, 0) + 1
        # narrow relaxation under a failing environment: a process that was hit by the injected error may FAIL; if every
        # process that was hit reports success, nothing may be wrong downstream and the ordinary oracle applies.
        excused = False
        for p in [r, comp] + tr + exe:
            if any(e["rule"] == "h" for e in p["events"]) and p["rc"] != 0:
                excused = True
        if excused or any(p["timeout"] for p in procs):
            return {"ok": True, "stats": st}
        st.setdefault("probes", {})["hard_fault_absorbed_then_judged"] = 1
    if any(p["timeout"] for p in procs):
        if r["timeout"] and (not exe or exe[0]["timeout"]):
            st["nontrivial"] = False
            return {"ok": True, "stats": st}
        return fail("timeout", "one leg timed out, the other did not")
    if comp["rc"] != 0:
        if r["rc"] == 0:
            return fail("compile-differs", "`compile --output-format raw-text` rejected the program (rc=%d) but `run` accepted it" % comp["rc"])
        st["nontrivial"] = False
        return {"ok": True, "stats": st}
    if tr and tr[0]["rc"] != 0:
        return fail("transpile-failed", "transpile rejected the text the compiler wrote (rc=%d): %s" % (tr[0]["rc"], core.text(tr[0]["err"])[-300:]))
    e = exe[0]
    ro, eo = pipeline.norm_out(r["out"]), pipeline.norm_out(e["out"])
    if pipeline.exit_class(r["rc"]) != pipeline.exit_class(e["rc"]):
        return fail("exit-differs", "`run` exit %d but the transpiled program's `execute` exit %d" % (r["rc"], e["rc"]))
    if case.get("shortcut"):
        # the shortcut prints a banner and the transpiler's message first; the program output must follow unchanged
        ok = eo.endswith(ro)
        if not ok and (case["kind"] in ("corpus", "testsrc") or (case["kind"] == "gen" and case["gen"].get("unordered"))):
            tail = eo.split(b"\n")[-len(ro.split(b"\n")):]
            ok = pipeline.canon(b"\n".join(tail)) == pipeline.canon(ro)
        if not ok:
            return fail("stdout-differs", "output of `execute --transpile` does not end with the output of `run`")
    elif ro != eo:
        unordered = case["kind"] == "gen" and case["gen"].get("unordered")
        if case["kind"] in ("corpus", "testsrc"):
            # (several other seeds: two seeds can give the same iteration order by chance)
            unordered = False
            for alt in ("a5", "3c", "e7", "19"):
                env2 = copy.deepcopy(env)
                env2["plans"][0] = {"seed": alt * 16, "rules": []}
                env2["crash"] = None
                r2 = pipeline.leg_run(files, entry, env2, 0)[0]
                if pipeline.norm_out(r2["out"]) != ro:
                    unordered = True
                    break
        if not unordered or pipeline.canon(ro) != pipeline.canon(eo):
            return fail("stdout-differs", "`run` and the transpiled program printed different output")
    if case.get("same_seed") and r.get("dump") is not None and e.get("dump") is not None and r["rc"] == 0:
        if r["dump"] != e["dump"]:
            a, b = r["dump"].split("\n"), e["dump"].split("\n")
            diff = next(((x, y) for x, y in zip(a, b) if x != y), (len(a), len(b)))
            return fail("instructions-differ", "instruction stream after transpilation differs from the emitted one: %r vs %r" % diff)
    return {"ok": True, "stats": st}


def shrink(case):
    if case.get("kind") == "twins":
        return
    if case.get("kind") == "texthist":
        yield from history.shrink(case)
        return
    yield from pipeline.shrink_env(case)
    yield from pipeline.shrink_program(case)
    if case.get("shortcut"):
        c = copy.deepcopy(case)
        c["shortcut"] = False
        yield c


def known_finding(case, res):
    return None


RULE = ("worlds: every single-module .ms of /repo/examples, every string over the 12-character format-special alphabet up to the tier's "
        "length as an instruction argument (three syntactic positions, escaped and raw spellings), generated single-module programs; "
        "pipeline compile raw-text -> rename -> transpile -> execute (and the `execute --transpile` shortcut) versus `run`; environments: "
        "per-process hash seeds, short/EINTR rules on all reads/writes/opens of the four processes, pre-existing longer/shorter/garbage "
        "output files, forced GC schedules; hard faults as observations. distinct = distinct (program, rule-shape, dirty, gc, shortcut); "
        "non-trivial = compiled, transpiled, executed and printed output")


def evidence_extra(tally, tier):
    return {"string_enumeration_exhaustive_up_to_length": 3 if tier == "quick" else 4}
