"""Project histories — the CLI commands of mscript as operations of one long-lived project directory.

A case is a *history*: a short sequence of operations on one four-module project
(main -> shapes -> {util, lib/extra}), each operation either a step of the user
(edit a source = next revision of that module; touch a source; delete one artefact) or a command
(`run`, `compile`, `compile shapes.ms`, `execute`, `clean .`, `clean lib`), or a command that is *killed*
at a planned call and leaves behind whatever it had written ("dirty restart as one more operation").
The simulator owns, besides everything the shim owns for one process, the *file times of the project*:
after every operation the files that operation wrote get the reading of a logical clock, and the policy
of that clock is an environment choice (steady, standing still, running backwards, sources restored with
old dates, artefacts from the future).  Nothing in the statements may depend on file times.

Reference model: S[m] = revision of module m's source; A[m] = revision its artefact was compiled from,
None (absent) or "?" (unknown: a killed writer).  Every revision of every module prints its own revision
and computes with its own constants, so the output tells which revision of which module really ran.

  run                -> must exit 0 and print expect(S)                                  (C04; C11 through the enter lines)
  compile [shapes]   -> must exit 0; A[m] = S[m] for what it compiles
  execute            -> if every A[m] is a known revision: must exit 0 and print expect(A)   (C04)
  clean DIR          -> removes exactly the *.mmm regular files directly in DIR, reports their number, exit 0;
                        nothing else changes (C20); killed clean: safety only
"""
import copy
import hashlib
import os
import re

import core
from core import Rng, derive

MODS = ["main", "shapes", "util", "lib/extra"]
BASE_TIME = 1600000000
CLOCKS = ["steady", "frozen", "backwards", "old_sources", "future_artefacts", "steady"]


def source(m, r):
    if m == "util":
        return ("print \"enter util r%d\"\nexport scale: fn(int) -> int = fn(q: int) -> int {\n\treturn q * %d\n}\n" % (r, 2 + r))
    if m == "lib/extra":
        return "print \"enter extra r%d\"\nexport bonus: int = %d\n" % (r, 1000 + r)
    if m == "shapes":
        return ("import scale from util\nimport lib/extra\nprint \"enter shapes r%d\"\n"
                "export class Counter {\n\tn: int\n\tconstructor(self, n: int) {\n\t\tself.n = scale(n)\n\t}\n"
                "\tfn bump(self) -> int {\n\t\tself.n += %d\n\t\treturn self.n\n\t}\n}\n"
                "export base: int = %d + extra.bonus\n" % (r, 10 * r, 100 + r))
    return ("import Counter, base from shapes\nprint \"enter main r%d\"\nc = Counter(2)\nprint c.bump()\nprint c.bump()\n"
            "print base\nprint \"done %d\"\n" % (r, r))


def expect(rev):
    rm, rs, ru, re_ = rev["main"], rev["shapes"], rev["util"], rev["lib/extra"]
    n = 2 * (2 + ru)
    return ("enter util r%d\nenter extra r%d\nenter shapes r%d\nenter main r%d\n%d\n%d\n%d\ndone %d\n"
            % (ru, re_, rs, rm, n + 10 * rs, n + 20 * rs, 100 + rs + 1000 + re_, rm))


# ------------------------------------------------------------------ generation

def gen_plan(rng, tag, quiet):
    import pipeline
    rules = [] if quiet else pipeline.rw_rules(rng, tag)
    ppm = 0 if quiet else rng.weighted([(0, 4), (10000, 1), (1000000, 1)])
    return {"seed": rng.hexbytes(16), "rules": rules}, ("%d:%d" % (rng.below(1 << 30), ppm) if ppm else None)


def gen_crash_rules(rng, cmd):
    if cmd == "clean":
        return [{"id": "crash", "call": "unlink", "pat": "*", "nth": str(rng.range(1, 3)), "act": rng.choice(["kill", "killafter"])}]
    # the kill point is the k-th call on a bytecode file, or on *any* file of the world (staging files, lock files and whatever
    # else a writer may use have names the simulator cannot guess), or a rename (before / after the new name exists)
    call, pat, hi = {"run": rng.weighted([(("write", "*.mmm", 14), 4), (("open", "*.mmm", 6), 2), (("read", "*.mmm", 8), 1), (("write", "<stdout>", 6), 1),
                                          (("write", "*", 20), 2), (("open", "*", 12), 2), (("rename", "*", 4), 1)]),
                     "compile": rng.weighted([(("write", "*.mmm", 20), 4), (("open", "*.mmm", 8), 2), (("read", "*.ms", 6), 1),
                                              (("write", "*", 24), 3), (("open", "*", 14), 3), (("rename", "*", 5), 2)]),
                     "execute": rng.weighted([(("read", "*.mmm", 8), 2), (("open", "*.mmm", 4), 1), (("write", "<stdout>", 6), 1)])}[cmd]
    k = min(rng.range(1, hi), rng.range(1, hi))
    if call == "write" and pat == "*.mmm" and rng.chance(1, 2):
        return [{"id": "crasht", "call": "write", "pat": "*.mmm", "nth": str(k), "act": "short:%d" % rng.range(1, 7)},
                {"id": "crash", "call": "write", "pat": "*.mmm", "nth": str(k + 1), "act": "kill"}]
    return [{"id": "crash", "call": call, "pat": pat, "nth": str(k), "act": rng.choice(["kill", "killafter"])}]


def gen_history(rng, judge, quiet):
    n = rng.range(3, 9)
    ops = []
    template = None if rng.chance(1, 2) else rng.choice([
        ["compile", "edit", "execute"], ["compile", "edit", "run", "execute"], ["compile", "edit", "compile_dep", "execute"],
        ["run", "edit", "run"], ["compile", "crash", "edit", "compile", "execute"], ["compile", "clean", "edit", "run"],
        ["compile", "edit", "crash", "run"], ["run", "clean_lib", "edit", "run", "compile", "execute"],
        ["compile", "rm_artefact", "edit", "run", "execute"], ["compile", "edit", "edit", "compile", "edit", "execute"]])
    if template:
        n = len(template)
    weights = ([("edit", 5), ("run", 4), ("compile", 4), ("compile_dep", 2), ("execute", 5), ("clean", 2 if judge == "c04" else 6),
                ("clean_lib", 1 if judge == "c04" else 3), ("crash", 0 if quiet else 4), ("touch", 1), ("rm_artefact", 1)])
    for i in range(n):
        kind = rng.weighted(weights)
        if template:
            kind = template[i] if not (quiet and template[i] == "crash") else "run"
        op = {"op": kind}
        if kind in ("edit", "touch", "rm_artefact"):
            op["m"] = rng.choice(MODS)
            if kind == "edit" and rng.chance(1, 4):
                op["also"] = rng.choice(MODS)          # two files saved in one go
        elif kind == "crash":
            op["cmd"] = rng.weighted([("compile", 4), ("run", 3), ("execute", 1), ("clean", 1 if judge == "c04" else 4)])
            op["plan"], op["gc"] = gen_plan(rng, "k%d" % i, True)
            op["rules"] = gen_crash_rules(rng, op["cmd"])
        else:
            op["plan"], op["gc"] = gen_plan(rng, "o%d" % i, quiet or rng.chance(1, 2))
            if kind in ("run", "compile", "compile_dep") and not quiet and rng.chance(1, 6) and any(o["op"] in ("run", "compile") for o in ops):
                # (only once an earlier command has written the artefacts: removing a name that does not exist fails with ENOENT
                # in any directory, which this rule would misrepresent)
                # names cannot be removed from the project directory (a sticky directory that belongs to someone else) while the
                # files themselves can be rewritten: nothing a compile needs
                op["plan"]["rules"].append({"id": "nu", "call": "unlink", "pat": "*.mmm", "nth": "*", "act": "errno:EACCES"})
            if kind in ("run", "compile", "compile_dep") and not quiet and rng.chance(1, 6):
                # the environment fails: the artefacts cannot be opened for writing, or the disk is full at the k-th write.
                # The command may fail; if it reports success the ordinary oracle applies
                op["plan"]["rules"].insert(0, rng.choice([
                    {"id": "h", "call": "open", "pat": "*.mmm", "nth": "*", "act": "rdonly"},
                    {"id": "h", "call": "write", "pat": "*.mmm", "nth": "%d+" % rng.range(1, 12), "act": "errno:ENOSPC"},
                    {"id": "h", "call": "open", "pat": "*.mmm", "nth": str(rng.range(1, 4)), "act": "errno:" + rng.choice(["EACCES", "EMFILE", "EIO"])}]))
            if kind in ("clean", "clean_lib") and not quiet and rng.chance(1, 2):
                op["plan"]["rules"].append({"id": "perm", "call": "readdir", "pat": "*", "nth": "*", "act": "perm:" + ",".join(str(x) for x in rng.shuffle(range(12)))})
        ops.append(op)
    # a history is only worth running if it ends in something that is judged
    tail = rng.choice(["run", "execute", "ce"]) if judge == "c04" else rng.choice(["clean", "clean", "clean_lib"])
    for kind in (["compile", "execute"] if tail == "ce" else [tail]):
        op = {"op": kind}
        op["plan"], op["gc"] = gen_plan(rng, "t", quiet or rng.chance(1, 2))
        ops.append(op)
    return ops


def gen_cases(prop, judge, tier, seed, count):
    for i in range(count):
        rng = Rng(derive(seed, prop, "hist", i))
        quiet = i % 5 == 0
        yield {"prop": prop, "id": "h%d" % i, "batch": "history_fault_free" if quiet else "history", "kind": "hist", "judge": judge,
               "clock": "steady" if quiet else rng.choice(CLOCKS), "start_rev": rng.range(1, 3),
               "ops": gen_history(rng, judge, quiet)}


# ------------------------------------------------------------------ running

def _stamp(world, before, clock, now):
    """Files the last operation wrote (or created) get the logical clock's reading; returns the new table of file times."""
    after = {}
    for dirpath, dirnames, filenames in os.walk(world):
        for nm in filenames:
            p = os.path.join(dirpath, nm)
            try:
                st = os.lstat(p)
            except FileNotFoundError:
                continue
            key = os.path.relpath(p, world)
            if before.get(key) != st.st_mtime_ns and not os.path.islink(p):
                t = now
                if clock == "future_artefacts" and nm.endswith(".mmm"):
                    t = now + 10 * 365 * 86400
                os.utime(p, (t, t))
                st = os.lstat(p)
            after[key] = st.st_mtime_ns
    return after


def _snapshot(world):
    snap = {}
    for dirpath, dirnames, filenames in os.walk(world, followlinks=False):
        for n in dirnames + filenames:
            p = os.path.join(dirpath, n)
            rel = os.path.relpath(p, world)
            mode = "%o" % (os.lstat(p).st_mode & 0o7777)
            if os.path.islink(p):
                snap[rel] = ("link", os.readlink(p))
            elif os.path.isdir(p):
                snap[rel] = ("dir", mode)
            else:
                with open(p, "rb") as f:
                    snap[rel] = ("file", hashlib.sha256(f.read()).hexdigest()[:12] + " mode " + mode)
    return snap


def run_case(case):
    judge = case["judge"]
    clock = case.get("clock", "steady")
    S = {m: case.get("start_rev", 1) for m in MODS}
    A = {m: None for m in MODS}
    world = core.fresh_world({m + ".ms": source(m, S[m]) for m in MODS}, sub="proj")
    now = BASE_TIME
    times = _stamp(world, {}, "steady", now)
    procs, rules_by_proc, trace = [], [], []
    probes = {}
    failure = None

    def tick():
        nonlocal now
        now += {"steady": 10, "frozen": 0, "backwards": -10, "old_sources": 10, "future_artefacts": 10}[clock]

    def cmd(args, op, extra_rules=()):
        plan = {"seed": op["plan"]["seed"], "rules": list(op["plan"]["rules"]) + list(extra_rules)}
        p = core.run_cmd(world, args, plan=plan, gc=op.get("gc"))
        procs.append(p)
        rules_by_proc.append(plan["rules"])
        return p

    def fail(cls, msg, p=None):
        det = {"history_so_far": trace, "sources": dict(S), "artefacts_model": {k: str(v) for k, v in A.items()}, "clock": clock}
        if p is not None:
            det["last"] = {"args": p["args"], "rc": p["rc"], "stdout": core.text(p["out"])[-1200:], "stderr": core.text(p["err"])[-1200:],
                           "fired": sorted({e["rule"] for e in p["events"] if e["rule"] != "-"})}
        return {"ok": False, "class": cls, "msg": msg, "detail": det}

    def excused(p):
        """the injected error fired in this process and the process failed: allowed"""
        hit = any(e["rule"] == "h" for e in p["events"])
        if hit:
            probes["history_hard_fault_%s" % ("failed_cleanly" if p["rc"] not in (0, 101) else ("absorbed" if p["rc"] == 0 else "panicked"))] = 1
        return hit and p["rc"] != 0

    for i, op in enumerate(case["ops"]):
        kind = op["op"]
        tick()
        label = kind
        if kind == "edit":
            for m in [op["m"]] + ([op["also"]] if op.get("also") and op["also"] != op["m"] else []):
                S[m] += 1
                with open(os.path.join(world, m + ".ms"), "w") as f:
                    f.write(source(m, S[m]))
                label += " " + m
        elif kind == "touch":
            p_ = os.path.join(world, op["m"] + ".ms")
            os.utime(p_, (now + 5, now + 5))
            times[op["m"] + ".ms"] = os.lstat(p_).st_mtime_ns
            trace.append(label + " " + op["m"])
            continue
        elif kind == "rm_artefact":
            try:
                os.unlink(os.path.join(world, op["m"] + ".mmm"))
            except FileNotFoundError:
                pass
            A[op["m"]] = None
            label += " " + op["m"]
        elif kind == "run":
            p = cmd(["run", "main.ms", "-q"], op)
            for m in MODS[1:]:
                A[m] = S[m] if p["rc"] == 0 else "?"
            if judge == "c04" and not p["timeout"] and not excused(p):
                if p["rc"] != 0 or core.text(p["out"]) != expect(S):
                    failure = fail("history-run-wrong", "after %s: `run` ended with rc=%d and printed %r, the sources are at %r and print %r"
                                   % (trace, p["rc"], core.text(p["out"])[-300:], S, expect(S)), p)
        elif kind in ("compile", "compile_dep"):
            ent = "main.ms" if kind == "compile" else "shapes.ms"
            p = cmd(["compile", ent, "--quick"], op)
            for m in (MODS if kind == "compile" else MODS[1:]):
                A[m] = S[m] if p["rc"] == 0 else "?"
            if judge == "c04" and p["rc"] != 0 and not p["timeout"] and not excused(p):
                failure = fail("history-compile-failed", "after %s: `compile %s` failed with rc=%d" % (trace, ent, p["rc"]), p)
        elif kind == "execute":
            if not os.path.exists(os.path.join(world, "main.mmm")):
                trace.append("execute (skipped: no main.mmm)")
                continue
            p = cmd(["execute", "main.mmm"], op)
            known = all(isinstance(A[m], int) for m in MODS)
            if known:
                probes["execute_judged_on_up_to_date_artefacts" if A == S else "execute_judged_on_artefacts_of_mixed_or_older_revisions"] = 1
            else:
                probes["execute_on_unknown_artefacts_not_judged"] = 1
            if judge == "c04" and known and not p["timeout"]:
                if p["rc"] != 0 or core.text(p["out"]) != expect(A):
                    failure = fail("history-execute-wrong", "after %s: `execute` ended with rc=%d and printed %r; the artefacts were compiled from revisions %r, which print %r"
                                   % (trace, p["rc"], core.text(p["out"])[-300:], A, expect(A)), p)
        elif kind in ("clean", "clean_lib"):
            d = "." if kind == "clean" else "lib"
            before = _snapshot(world)
            p = cmd(["clean", d], op)
            after = _snapshot(world)
            failure = judge_clean(before, after, d, p, True, fail, trace) if judge == "c20" else None
            for m in MODS:
                if (os.path.dirname(m) or ".") == d:
                    A[m] = None
        elif kind == "crash":
            c = op["cmd"]
            args = {"run": ["run", "main.ms", "-q"], "compile": ["compile", "main.ms", "--quick"], "execute": ["execute", "main.mmm"], "clean": ["clean", "."]}[c]
            if c == "execute" and not os.path.exists(os.path.join(world, "main.mmm")):
                trace.append("crash execute (skipped)")
                continue
            before = _snapshot(world)
            p = cmd(args, op, extra_rules=op["rules"])
            p["aux"] = True
            after = _snapshot(world)
            killed = p["rc"] == 137
            label += " %s (%s)" % (c, "killed at %s" % "/".join("%s %s #%s" % (r["call"], r["pat"], r["nth"]) for r in op["rules"]) if killed else "ended before the kill point")
            if killed:
                probes["history_%s_killed" % c] = 1
            if c in ("run", "compile"):
                for m in (MODS if c == "compile" else MODS[1:]):
                    A[m] = "?" if killed or p["rc"] != 0 else S[m]
            elif c == "clean":
                if judge == "c20":
                    failure = judge_clean(before, after, ".", p, not killed, fail, trace)
                for m in MODS[:3]:
                    A[m] = None if not os.path.exists(os.path.join(world, m + ".mmm")) else A[m]
        trace.append(label)
        times = _stamp(world, times, clock, now)
        if kind == "edit" and clock == "old_sources":
            # sources restored from an archive keep the dates they had there: older than every artefact
            for m in [op["m"], op.get("also")]:
                if m:
                    p_ = os.path.join(world, m + ".ms")
                    os.utime(p_, (BASE_TIME - 86400 * 400 + i, BASE_TIME - 86400 * 400 + i))
                    times[m + ".ms"] = os.lstat(p_).st_mtime_ns
        if failure:
            break
    st = core.stats_of(procs, rules_by_proc)
    st["hash_seeds"] = [o["plan"]["seed"] for o in case["ops"] if "plan" in o]
    st["shape"] = core.shape_hash("hist", judge, clock, [(o["op"], o.get("m"), o.get("cmd"), [(r["call"], r["nth"], r["act"].split(":")[0]) for r in o.get("rules", [])]) for o in case["ops"]])
    st["nontrivial"] = len(procs) >= 2
    st["sample"] = {"kind": "history", "clock": clock, "ops": trace}
    probes["history_clock_" + clock] = 1
    if any(o["op"] == "edit" for o in case["ops"]):
        probes["history_source_edited_between_commands"] = 1
    st["probes"] = probes
    if failure:
        failure["stats"] = st
        return failure
    return {"ok": True, "stats": st}


def judge_clean(before, after, d, p, complete, fail, trace):
    """C20 on a real project directory: what `clean d` did between the two snapshots."""
    def in_dir(rel):
        return (os.path.dirname(rel) or ".") == d

    def eligible(rel, ent):
        nm = os.path.basename(rel)
        i = nm.rfind(".")
        return in_dir(rel) and ent[0] == "file" and i > 0 and nm[i + 1:] == "mmm"
    removed = [k for k in before if k not in after]
    for k in sorted(before):
        if k in after and after[k] != before[k]:
            return fail("history-clean-altered", "after %s: `clean %s` altered %r" % (trace, d, k), p)
    for k in after:
        if k not in before:
            return fail("history-clean-created", "after %s: `clean %s` created %r" % (trace, d, k), p)
    for k in removed:
        if not eligible(k, before[k]):
            return fail("history-clean-deleted-ineligible", "after %s: `clean %s` deleted %r, which is not a bytecode file directly in it" % (trace, d, k), p)
    if not complete or p["timeout"]:
        return None
    left = [k for k in after if eligible(k, after[k])]
    if p["rc"] != 0:
        return fail("history-clean-exit", "after %s: `clean %s` exited with %d" % (trace, d, p["rc"]), p)
    if left:
        return fail("history-clean-incomplete", "after %s: `clean %s` left %r behind" % (trace, d, sorted(left)), p)
    m = re.search(r"Removed (\d+) file", core.text(p["out"]))
    if not m or int(m.group(1)) != len(removed):
        return fail("history-clean-count", "after %s: `clean %s` removed %d files and reported %r" % (trace, d, len(removed), core.text(p["out"])[-80:]), p)
    return None


def shrink(case):
    ops = case["ops"]
    for i in range(len(ops) - 1):
        c = copy.deepcopy(case)
        del c["ops"][i]
        yield c
    if case.get("clock") != "steady":
        c = copy.deepcopy(case)
        c["clock"] = "steady"
        yield c
    for i, op in enumerate(ops):
        if op.get("plan", {}).get("rules") and op["op"] != "crash":
            for j in range(len(op["plan"]["rules"])):
                c = copy.deepcopy(case)
                del c["ops"][i]["plan"]["rules"][j]
                yield c
        if op.get("gc"):
            c = copy.deepcopy(case)
            c["ops"][i]["gc"] = None
            yield c
        if op.get("also"):
            c = copy.deepcopy(case)
            del c["ops"][i]["also"]
            yield c


# ------------------------------------------------------------------ the text route as a history (C18)

def text_source(r):
    return ("label = \"rev %d: q\\\"uote, back\\\\slash, tab\\there\"\nprint label\n"
            "xs: [int...] = [%d, %d]\nxs.push(%d)\nprint xs\n"
            "class Box {\n\tv: int\n\tconstructor(self, v: int) {\n\t\tself.v = v\n\t}\n\tfn twice(self) -> int {\n\t\treturn self.v * 2\n\t}\n}\n"
            "bx = Box(%d)\nprint bx.twice()\nprint \"done %d\"\n" % (r, r, r + 1, r + 2, 20 + r, r))


def text_expect(r):
    return "rev %d: q\"uote, back\\slash, tab\there\n[%d, %d, %d]\n%d\ndone %d\n" % (r, r, r + 1, r + 2, 2 * (20 + r), r)


TEXT_TEMPLATES = [["compile_text", "stage", "transpile", "execute"], ["compile_text", "stage", "edit", "transpile", "execute"],
                  ["compile_text", "stage", "transpile", "edit", "compile_text", "stage", "transpile", "execute"],
                  ["compile", "edit", "compile_text", "stage", "transpile", "execute"],
                  ["compile_text", "stage", "crash", "transpile", "execute"], ["compile_text", "stage", "transpile", "edit", "compile_text", "stage", "execute_t"],
                  ["compile_text", "stage", "transpile", "transpile", "execute"], ["compile_text", "stage", "execute_t", "edit", "compile_text", "stage", "crash", "execute_t"],
                  ["compile_text", "stage", "transpile", "clean", "transpile", "execute"], ["compile_text", "crash", "compile_text", "stage", "transpile", "execute"]]


def gen_text_cases(prop, tier, seed, count):
    for i in range(count):
        rng = Rng(derive(seed, prop, "texthist", i))
        quiet = i % 5 == 0
        kinds = list(rng.choice(TEXT_TEMPLATES)) if rng.chance(2, 3) else \
            [rng.weighted([("edit", 3), ("compile_text", 4), ("stage", 4), ("transpile", 4), ("execute", 3), ("execute_t", 2), ("compile", 1),
                           ("run", 1), ("clean", 1), ("crash", 3)]) for _ in range(rng.range(4, 10))] + ["compile_text", "stage", rng.choice(["transpile", "execute_t"]), "execute"]
        ops = []
        for j, kind in enumerate(kinds):
            if kind == "crash" and quiet:
                kind = "transpile"
            op = {"op": kind}
            if kind == "crash":
                op["cmd"] = rng.weighted([("transpile", 4), ("compile_text", 3), ("execute_t", 2), ("execute", 1)])
                op["plan"], op["gc"] = gen_plan(rng, "k%d" % j, True)
                call, pat, hi = {"transpile": rng.weighted([(("write", "*.mmm", 20), 4), (("read", "*.mmm", 8), 2), (("open", "*.mmm", 3), 2), (("write", "*", 20), 2), (("open", "*", 6), 2), (("rename", "*", 2), 1)]),
                                 "compile_text": rng.weighted([(("write", "*.mmm", 20), 4), (("open", "*.mmm", 3), 1), (("write", "*", 20), 2), (("open", "*", 6), 1), (("rename", "*", 2), 1)]),
                                 "execute_t": rng.weighted([(("write", "*.mmm", 20), 4), (("read", "*.mmm", 10), 2), (("open", "*.mmm", 4), 2)]),
                                 "execute": rng.weighted([(("read", "*.mmm", 8), 2), (("write", "<stdout>", 4), 1)])}[op["cmd"]]
                k = min(rng.range(1, hi), rng.range(1, hi))
                op["rules"] = [{"id": "crash", "call": call, "pat": pat, "nth": str(k), "act": rng.choice(["kill", "killafter"])}]
                if call == "write" and pat == "*.mmm" and rng.chance(1, 2):
                    op["rules"] = [{"id": "crasht", "call": "write", "pat": "*.mmm", "nth": str(k), "act": "short:%d" % rng.range(1, 7)},
                                   {"id": "crash", "call": "write", "pat": "*.mmm", "nth": str(k + 1), "act": "kill"}]
            elif kind not in ("edit", "stage"):
                op["plan"], op["gc"] = gen_plan(rng, "o%d" % j, quiet or rng.chance(1, 2))
            ops.append(op)
        sx = Rng(derive(seed, prop, "texthist-suffix", i))
        yield {"prop": prop, "id": "x%d" % i, "batch": "history_fault_free" if quiet else "history", "kind": "texthist",
               # the text form's suffix is recognised whatever its letter case; the binary is `prog.mmm` all the same
               "suffix": sx.weighted([(".transpiled.mmm", 5), (".TRANSPILED.MMM", 1)]),
               "clock": "steady" if quiet else rng.choice(CLOCKS), "start_rev": rng.range(1, 3), "ops": ops}


def run_text_case(case):
    """State: S = revision of prog.ms; T = revision prog.transpiled.mmm (text) was written from; B = what prog.mmm holds:
    ("text", r) fresh from `compile --output-format raw-text`, ("bin", r) from `compile` or `transpile`, None, "?"."""
    clock = case.get("clock", "steady")
    S = case.get("start_rev", 1)
    T, B = None, None
    world = core.fresh_world({"prog.ms": text_source(S)}, sub="proj")
    now = BASE_TIME
    times = _stamp(world, {}, "steady", now)
    procs, rules_by_proc, trace, probes = [], [], [], {}
    failure = None
    step = {"steady": 10, "frozen": 0, "backwards": -10, "old_sources": 10, "future_artefacts": 10}[clock]

    def cmd(args, op, extra_rules=()):
        plan = {"seed": op["plan"]["seed"], "rules": list(op["plan"]["rules"]) + list(extra_rules)}
        p = core.run_cmd(world, args, plan=plan, gc=op.get("gc"))
        procs.append(p)
        rules_by_proc.append(plan["rules"])
        return p

    def fail(cls, msg, p):
        return {"ok": False, "class": cls, "msg": msg,
                "detail": {"history_so_far": trace, "source_revision": S, "text_revision": T, "binary": str(B), "clock": clock,
                           "last": {"args": p["args"], "rc": p["rc"], "stdout": core.text(p["out"])[-1200:], "stderr": core.text(p["err"])[-1200:],
                                    "fired": sorted({e["rule"] for e in p["events"] if e["rule"] != "-"})}}}

    def judged(p, r, what):
        if p["timeout"]:
            return None
        out = core.text(p["out"])
        if what.startswith("`execute --transpile"):
            # the shortcut prints a banner and the transpiler's message first; the program's output must follow, whole and alone
            head = out[:-len(text_expect(r))] if out.endswith(text_expect(r)) else out
            out = text_expect(r) if (out.endswith(text_expect(r)) and "rev " not in head and "done " not in head) else out
        if p["rc"] != 0 or out != text_expect(r):
            return fail("history-text-route-wrong", "after %s: %s ended with rc=%d and printed %r; the text form was written from revision %d, which prints %r"
                        % (trace, what, p["rc"], core.text(p["out"])[-300:], r, text_expect(r)), p)
        return None
    TEXT = "prog" + case.get("suffix", ".transpiled.mmm")
    ARGS = {"compile_text": ["compile", "prog.ms", "--output-format", "raw-text", "--quick"], "compile": ["compile", "prog.ms", "--quick"],
            "transpile": ["transpile", TEXT], "execute": ["execute", "prog.mmm"],
            "execute_t": ["execute", TEXT, "--transpile"], "run": ["run", "prog.ms", "-q"], "clean": ["clean", "."]}
    exists = lambda n: os.path.exists(os.path.join(world, n))
    for i, op in enumerate(case["ops"]):
        kind = op["op"]
        now += step
        label = kind
        if kind == "edit":
            S += 1
            with open(os.path.join(world, "prog.ms"), "w") as f:
                f.write(text_source(S))
        elif kind == "stage":
            # what the CLI's help tells the user to do: rename the text form before transpiling it
            if isinstance(B, tuple) and B[0] == "text":
                os.replace(os.path.join(world, "prog.mmm"), os.path.join(world, TEXT))
                T, B = B[1], None
            else:
                label += " (skipped)"
        elif kind in ("compile_text", "compile"):
            p = cmd(ARGS[kind], op)
            B = (("text" if kind == "compile_text" else "bin"), S) if p["rc"] == 0 else "?"
            if p["rc"] != 0 and not p["timeout"]:
                failure = fail("history-compile-failed", "after %s: `%s` failed with rc=%d" % (trace, " ".join(ARGS[kind]), p["rc"]), p)
        elif kind == "run":
            p = cmd(ARGS[kind], op)
            if not p["timeout"] and (p["rc"] != 0 or core.text(p["out"]) != text_expect(S)):
                failure = fail("history-run-wrong", "after %s: `run` ended with rc=%d and printed %r" % (trace, p["rc"], core.text(p["out"])[-300:]), p)
        elif kind == "transpile":
            if not isinstance(T, int) or not exists(TEXT):
                label += " (skipped)"
            else:
                p = cmd(ARGS[kind], op)
                B = ("bin", T) if p["rc"] == 0 else "?"
                if p["rc"] != 0 and not p["timeout"]:
                    failure = fail("history-transpile-failed", "after %s: `transpile` of an intact text form failed with rc=%d" % (trace, p["rc"]), p)
        elif kind == "execute":
            if not (isinstance(B, tuple) and B[0] == "bin") or not exists("prog.mmm"):
                label += " (skipped)"
            else:
                p = cmd(ARGS[kind], op)
                probes["text_history_execute_judged"] = 1
                if B[1] != S:
                    probes["text_history_execute_of_an_older_revision_judged"] = 1
                failure = judged(p, B[1], "`execute prog.mmm`")
        elif kind == "execute_t":
            if not isinstance(T, int) or not exists(TEXT):
                label += " (skipped)"
            else:
                p = cmd(ARGS[kind], op)
                probes["text_history_execute_transpile_judged"] = 1
                B = ("bin", T) if p["rc"] == 0 else "?"
                failure = judged(p, T, "`execute --transpile`")
        elif kind == "clean":
            p = cmd(ARGS[kind], op)
            T, B = None, None
        elif kind == "crash":
            c = op["cmd"]
            need = {"transpile": TEXT, "execute_t": TEXT, "execute": "prog.mmm", "compile_text": "prog.ms"}[c]
            ok_state = {"transpile": isinstance(T, int), "execute_t": isinstance(T, int), "execute": isinstance(B, tuple) and B[0] == "bin", "compile_text": True}[c]
            if not exists(need) or not ok_state:
                label += " %s (skipped)" % c
            else:
                p = cmd(ARGS[c], op, extra_rules=op["rules"])
                p["aux"] = True
                killed = p["rc"] == 137
                label += " %s (%s)" % (c, "killed at %s" % "/".join("%s %s #%s" % (r["call"], r["pat"], r["nth"]) for r in op["rules"]) if killed else "ended before the kill point")
                if killed:
                    probes["text_history_%s_killed" % c] = 1
                if c in ("transpile", "execute_t"):
                    B = "?" if killed or p["rc"] != 0 else ("bin", T)
                elif c == "compile_text":
                    B = "?" if killed or p["rc"] != 0 else ("text", S)
        trace.append(label)
        times = _stamp(world, times, clock, now)
        if kind == "edit" and clock == "old_sources":
            p_ = os.path.join(world, "prog.ms")
            os.utime(p_, (BASE_TIME - 86400 * 400 + i, BASE_TIME - 86400 * 400 + i))
            times["prog.ms"] = os.lstat(p_).st_mtime_ns
        if failure:
            break
    st = core.stats_of(procs, rules_by_proc)
    st["hash_seeds"] = [o["plan"]["seed"] for o in case["ops"] if "plan" in o]
    st["shape"] = core.shape_hash("texthist", clock, [(o["op"], o.get("cmd"), [(r["call"], r["nth"], r["act"].split(":")[0]) for r in o.get("rules", [])]) for o in case["ops"]])
    st["nontrivial"] = len(procs) >= 2
    st["sample"] = {"kind": "text-route history", "clock": clock, "ops": trace}
    probes["history_clock_" + clock] = 1
    st["probes"] = probes
    if failure:
        failure["stats"] = st
        return failure
    return {"ok": True, "stats": st}
