"""C04 — `run` and `compile`+`execute` are observationally equivalent.

Processes of a case: R = `run x.ms -q`;  C = `compile x.ms --quick`;  E = `execute x.mmm`
(plus, optionally, an earlier compile that is really killed at its k-th bytecode write).
Binding oracle: stdout byte-equal and exit class equal; with one hash seed for R and C also the
instruction streams loaded by R and E (hook dump) are equal.  Hard-fault runs are observations.
"""
import copy
import os

import core
import history
import pipeline
from core import Rng, derive

PROP = "C04"
LEVEL = "exploration"
BUDGET = {"quick": 170, "thorough": 1500}

ENTRY_NAMES = ["s.ms", "my prog.ms", "a#b.ms", "q'uote.ms", 'dq"x.ms', "é.ms", "x.y.ms", "#.ms", "report.transpiled.ms", "d.ms", "m.ms",
               "x.mmm.ms", "UPPER.ms", "a.b.c.d.ms", "-dash.ms"]


def gen_cases(tier, seed):
    quick = tier == "quick"
    n = 0
    yield from gen_twins(tier, seed)
    yield from history.gen_cases(PROP, "c04", tier, seed, 700 if quick else 8000)
    # (a) corpus, each entry under several environments
    entries = [e for e in pipeline.corpus_entries() if e not in pipeline.SLOW_OR_UNSTABLE]
    reps = 3 if quick else 12
    for (top, entry) in entries:
        for r in range(reps):
            rng = Rng(derive(seed, PROP, "corpus", top, entry, r))
            batch = ["fault_free", "benign", "benign", "hard"][r % 4]
            same = r % 2 == 0
            yield {"prop": PROP, "id": "c%d" % n, "batch": batch, "kind": "corpus", "example": top, "entry": entry,
                   "same_seed": same, "env": pipeline.gen_env(rng, batch, 3, same_seed=same), "qualify": True}
            n += 1
    # (c) string enumeration, exhaustive up to the tier's length
    maxlen = 3 if quick else 4
    k = 0
    for s in pipeline.all_strings(maxlen):
        rng = Rng(derive(seed, PROP, "string", k))
        # quick: every string once, form and spelling rotated; thorough: also the raw spelling and a second form
        variants = [(k % 2 == 1, k % 3)] if quick else [(False, k % 3), (True, (k + 1) % 3)]
        for raw, form in variants:
            batch = "fault_free" if rng.chance(3, 4) else "benign"
            yield {"prop": PROP, "id": "s%d" % n, "batch": batch, "kind": "string", "s": s, "raw": raw, "form": form,
                   "same_seed": True, "env": pipeline.gen_env(rng, batch, 3, same_seed=True)}
            n += 1
        k += 1
    # (c') characters outside the alphabet that file formats tend to treat specially (always in their raw spelling)
    for j, s in enumerate(pipeline.odd_strings()):
        for form in ((j % 3,) if quick else (0, 1, 2)):
            rng = Rng(derive(seed, PROP, "odd", j, form))
            batch = "fault_free" if rng.chance(1, 2) else "benign"
            yield {"prop": PROP, "id": "u%d" % n, "batch": batch, "kind": "string", "s": s, "raw": True, "form": form,
                   "same_seed": True, "env": pipeline.gen_env(rng, batch, 3, same_seed=True)}
            n += 1
    # (d) odd entry file names
    for i, name in enumerate(ENTRY_NAMES):
        for j, s in enumerate(["plain", 'q"\\ \t\n']):
            rng = Rng(derive(seed, PROP, "name", i, j))
            yield {"prop": PROP, "id": "n%d" % n, "batch": "fault_free", "kind": "string", "s": s, "raw": False, "form": 2 if j else 0,
                   "entry": name, "same_seed": True, "env": pipeline.gen_env(rng, "fault_free", 3, same_seed=True)}
            n += 1
    # (b) generated programs of every feature area
    # programs embedded in the repository's own test-suite
    for (name, tfiles, tentry) in pipeline.test_programs():
        for r in range(2 if quick else 6):
            rng = Rng(derive(seed, PROP, "testsrc", name, r))
            batch = ["fault_free", "benign", "benign", "hard"][r % 4]
            same = r % 2 == 0
            yield {"prop": PROP, "id": "t%d" % n, "batch": batch, "kind": "testsrc", "name": name, "qualify": True,
                   "same_seed": same, "env": pipeline.gen_env(rng, batch, 3, same_seed=same)}
            n += 1
    try:
        import gens
    except ImportError:
        gens = None
    if gens is not None:
        total = 3500 if quick else 36000
        for i in range(total):
            rng = Rng(derive(seed, PROP, "gen", i))
            g = gens.generate(rng, derive(seed, PROP, "genprog", i))
            batch = rng.weighted([("fault_free", 2), ("benign", 6), ("hard", 2)])
            same = rng.chance(1, 2)
            yield {"prop": PROP, "id": "g%d" % n, "batch": batch, "kind": "gen", "gen": g, "same_seed": same,
                   "env": pipeline.gen_env(rng, batch, 3, same_seed=same)}
            n += 1


# ------------------------------------------------------------------ two processes at once

def twin_project(mul, step, base, tag):
    """A three-module project; two of these with the same file names and different constants live side by side."""
    util = "export scale: fn(int) -> int = fn(q: int) -> int {\n\treturn q * %d\n}\n" % mul
    shapes = ("import scale from util\n"
              "export class Counter {\n\tn: int\n\tconstructor(self, n: int) {\n\t\tself.n = scale(n)\n\t}\n"
              "\tfn bump(self) -> int {\n\t\tself.n += %d\n\t\treturn self.n\n\t}\n}\n"
              "export base: int = %d\n" % (step, base))
    main = ("import Counter, base from shapes\nc = Counter(2)\nprint c.bump()\nprint c.bump()\nprint base\nprint \"done %s\"\n" % tag)
    expect = "%d\n%d\n%d\ndone %s\n" % (2 * mul + step, 2 * mul + 2 * step, base, tag)
    return {"main.ms": main, "shapes.ms": shapes, "util.ms": util}, expect


def gen_twins(tier, seed):
    """Process A is stopped at its k-th open / read / write (any file, the shared temporary directory included); process B
    then runs from start to end in the sibling directory; A goes on.  Neither may notice the other."""
    n = 0
    ks = range(1, 15) if tier == "quick" else range(1, 31)
    for call in ("open", "write", "read"):
        for k in ks:
            for a_op, b_op in (("run", "run"), ("ce", "run"), ("run", "ce"), ("ce", "ce")):
                rng = Rng(derive(seed, PROP, "twins", call, k, a_op, b_op))
                yield {"prop": PROP, "id": "w%d" % n, "batch": "twins", "kind": "twins", "stall": {"call": call, "nth": k},
                       "a_op": a_op, "b_op": b_op, "seed_a": rng.hexbytes(16), "seed_b": rng.hexbytes(16), "shared_tmp": True}
                n += 1


def run_twins(case):
    fa, exp_a = twin_project(1, 1, 5, "a")
    fb, exp_b = twin_project(100, 4, 96, "B")
    files = {"pa/" + k: v for k, v in fa.items()}
    files.update({"pb/" + k: v for k, v in fb.items()})
    world = core.fresh_world(files, sub="tw")
    procs = []

    def op(which, kind, seed, during=None, rule=None):
        """run, or compile+execute, of project `which`; `during`/`rule` apply to the first command"""
        plan = {"seed": seed, "rules": [rule] if rule else []}
        cwd = os.path.join(world, which)
        if kind == "run":
            p = core.run_cmd(cwd, ["run", "main.ms", "-q"], plan=plan, during=during)
            procs.append(p)
            return p
        c = core.run_cmd(cwd, ["compile", "main.ms", "--quick"], plan=plan, during=during)
        procs.append(c)
        if c["rc"] != 0:
            return c
        p = core.run_cmd(cwd, ["execute", "main.mmm"], plan={"seed": seed, "rules": []})
        procs.append(p)
        return p

    res = {}

    def b_runs():
        res["b"] = op("pb", case["b_op"], case["seed_b"])

    rule = {"id": "st", "call": case["stall"]["call"], "pat": "*", "nth": str(case["stall"]["nth"]), "act": "stall"}
    res["a"] = op("pa", case["a_op"], case["seed_a"], during=b_runs, rule=rule)
    st = core.stats_of(procs, [[rule]] * len(procs))
    st["hash_seeds"] = [case["seed_a"], case["seed_b"]]
    st["shape"] = core.shape_hash("twins", case["stall"], case["a_op"], case["b_op"])
    st["nontrivial"] = True
    st["sample"] = {"stall": case["stall"], "a": case["a_op"], "b": case["b_op"]}
    st["probes"] = {"second_process_ran_while_first_was_stopped": 1} if any(p.get("stalled") for p in procs) else {"stall_point_beyond_the_end_of_the_process": 1}
    for who, exp in (("a", exp_a), ("b", exp_b)):
        p = res.get(who)
        if p is None or p["timeout"] or p["rc"] != 0 or core.text(p["out"]) != exp:
            return {"ok": False, "class": "twin-interference", "stats": st,
                    "msg": "project %s (run next to a same-named project, stopped at %s #%d) ended with rc=%s and printed %r, expected %r"
                           % (who, case["stall"]["call"], case["stall"]["nth"], None if p is None else p["rc"],
                              None if p is None else core.text(p["out"])[-200:], exp),
                    "detail": {"files": files, "stderr": None if p is None else core.text(p["err"])[-1500:]}}
    return {"ok": True, "stats": st}


def run_case(case):
    if case.get("kind") == "twins":
        return run_twins(case)
    if case.get("kind") == "hist":
        return history.run_case(case)
    files, entry = pipeline.case_files(case)
    env = case["env"]
    dump = bool(case.get("same_seed"))
    R = pipeline.leg_run(files, entry, env, 0, dump=dump)
    CE = pipeline.leg_compile_execute(files, entry, env, 1, dump=dump)
    aux = pipeline.take_aux()
    procs = R + CE + aux
    rules = []
    for p in procs:
        rules.append(env["plans"][0]["rules"] + env["plans"][1]["rules"] + env["plans"][2]["rules"] + ((env.get("crash") or {}).get("rules") or []))
    st = core.stats_of(procs, rules)
    for p in procs:
        for e in p["events"]:
            if e["rule"] in ("torn", "tornk"):
                st["fired"]["write:torn-by-killed-compile"] = st["fired"].get("write:torn-by-killed-compile", 0) + 1
    st["hash_seeds"] = [pl["seed"] for pl in env["plans"]]
    desc = case.get("example", "") + "/" + case.get("entry", "") if case["kind"] == "corpus" else \
        (repr(case["s"]) if case["kind"] == "string" else (case["name"] if case["kind"] == "testsrc" else case["gen"].get("family", "gen")))
    st["shape"] = core.shape_hash(case["kind"], desc, case.get("raw"), case.get("form"), case.get("gen"),
                                  [[(r["call"], r["pat"], r["act"].split(":")[0]) for r in pl["rules"]] for pl in env["plans"]],
                                  bool(env.get("dirty")), bool(env.get("torn")), [bool(g) for g in env["gc"]])
    st["sample"] = {"kind": case["kind"], "what": desc, "batch": case["batch"],
                    "rules": [[(r["call"], r["pat"], r["nth"], r["act"]) for r in pl["rules"]] for pl in env["plans"]],
                    "gc": env["gc"], "dirty": env.get("dirty"), "torn": env.get("torn")}
    r = R[0]
    comp = [p for p in CE if p["args"][0] == "compile" and not p.get("aux")][0]
    exe = [p for p in CE if p["args"][0] == "execute"]
    st["nontrivial"] = bool(exe) and len(r["out"]) > 0
    probes = {}
    if any(p.get("aux") for p in CE):
        probes["torn_artefact_left_by_killed_compile"] = 1
    if env.get("dirty"):
        probes["stale_artefacts_present"] = 1
    if exe and any(e["call"] == "open" and e["path"].endswith(".mmm") and e["path"] != exe[0]["args"][1] for e in exe[0]["events"]):
        probes["module_loaded_lazily_from_disk"] = 1
    for a in aux:
        if a.get("crashed"):
            probes["crashed_and_restarted_" + a["args"][0]] = 1
    st["probes"] = probes

    def fail(cls, msg):
        det = {"source_files": {k: core.text(v) if isinstance(v, bytes) else v for k, v in files.items()} if len(files) < 8 else sorted(files),
               "entry": entry}
        for name, p in (("run", r), ("compile", comp)) + ((("execute", exe[0]),) if exe else ()):
            det[name] = {"rc": p["rc"], "stdout": core.text(p["out"])[-1500:], "stderr": core.text(p["err"])[-1500:],
                         "fired": sorted({e["rule"] for e in p["events"] if e["rule"] != "-"})}
        return {"ok": False, "class": cls, "msg": msg, "stats": st, "detail": det}

    hard = pipeline.hard_fired(procs)
    if hard:
        obs = st.setdefault("observations", {})
        for name, p in (("run", r), ("compile", comp)) + ((("execute", exe[0]),) if exe else ()):
            if any(e["rule"] == "h" for e in p["events"]):
                key = "hard_fault_in_%s_%s" % (name, "panic" if (b"panicked at" in p["err"]) else ("clean_error" if p["rc"] != 0 else "unaffected"))
                obs[key] = obs.get(key, 0) + 1
        # narrow relaxation under a failing environment: a process that was hit by the injected error may FAIL; if every
        # process that was hit reports success, nothing may be wrong downstream and the ordinary oracle applies.
        excused = False
        for p in (r, comp) + tuple(exe):
            if any(e["rule"] == "h" for e in p["events"]) and p["rc"] != 0:
                excused = True
        if excused or any(p["timeout"] for p in procs):
            return {"ok": True, "stats": st}
        st.setdefault("probes", {})["hard_fault_absorbed_then_judged"] = 1
    if any(p["timeout"] for p in procs):
        if all(p["timeout"] for p in (r,) + tuple(exe)):
            st["nontrivial"] = False
            return {"ok": True, "stats": st}   # the program itself does not terminate: not judged
        return fail("timeout", "one leg timed out, the other did not")
    if comp["rc"] != 0:
        # nothing was compiled: `run` must fail as well, before running anything
        if r["rc"] == 0:
            return fail("compile-differs", "`compile` rejected the program (rc=%d) but `run` accepted it" % comp["rc"])
        st["nontrivial"] = False
        return {"ok": True, "stats": st}
    e = exe[0]
    if case.get("qualify") and b"0x" in r["out"] + e["out"]:
        ro, eo = pipeline.norm_out(r["out"]), pipeline.norm_out(e["out"])
    else:
        ro, eo = pipeline.norm_world(r["out"]), pipeline.norm_world(e["out"])
    if pipeline.exit_class(r["rc"]) != pipeline.exit_class(e["rc"]):
        return fail("exit-differs", "`run` exit %d but `execute` exit %d" % (r["rc"], e["rc"]))
    if ro != eo:
        unordered = case["kind"] == "gen" and case["gen"].get("unordered")
        if case["kind"] in ("corpus", "testsrc"):
            # does the program's output depend on the hash seed (raw map prints)?  Ask `run` again under another seed.
            # (several other seeds: two seeds can give the same iteration order by chance)
            unordered = False
            for alt in ("a5", "3c", "e7", "19"):
                env2 = copy.deepcopy(env)
                env2["plans"][0] = {"seed": alt * 16, "rules": []}
                env2["crash"] = None
                r2 = pipeline.leg_run(files, entry, env2, 0)[0]
                if pipeline.norm_out(r2["out"]) != ro:
                    unordered = True
                    break
            st["probes"]["corpus_program_output_depends_on_hash_seed"] = 1 if unordered else 0
        if not unordered or pipeline.canon(ro) != pipeline.canon(eo):
            return fail("stdout-differs", "`run` and `execute` printed different output")
    if case.get("same_seed") and r.get("dump") is not None and e.get("dump") is not None and r["rc"] == 0:
        if r["dump"] != e["dump"]:
            a, b = r["dump"].split("\n"), e["dump"].split("\n")
            diff = next(((x, y) for x, y in zip(a, b) if x != y), (len(a), len(b)))
            return fail("instructions-differ", "instruction stream read back from file differs from the emitted one: %r vs %r" % diff)
    return {"ok": True, "stats": st}


def shrink(case):
    if case.get("kind") == "hist":
        yield from history.shrink(case)
        return
    if case.get("kind") == "twins":
        for key in ("a_op", "b_op"):
            if case[key] != "run":
                c = copy.deepcopy(case)
                c[key] = "run"
                yield c
        return
    yield from pipeline.shrink_env(case)
    yield from pipeline.shrink_program(case)
    if case.get("same_seed") is False:
        pass


def known_finding(case, res):
    return None


RULE = ("worlds: every .ms of /repo/examples as entry (with its directory), every string over the 11-character format-special alphabet "
        "up to the tier's length (quick 3, thorough 4; escaped and raw spellings; three syntactic positions), odd entry file names, "
        "generated programs of the feature generators; environments: per-process hash seeds, short/EINTR rules on source and bytecode reads, "
        "bytecode writes, opens and stdout, stale/garbage artefacts, torn artefacts from a really killed compile, forced GC schedules; "
        "hard faults as observations; project histories (edits, run, compile, execute, clean, killed commands, unwritable artefacts on one long-lived project under five file-time policies) against a revision model. distinct = distinct (program, rule-shape, dirty, torn, gc) tuples; non-trivial = program compiled, "
        "`execute` ran and printed output")


def evidence_extra(tally, tier):
    return {"string_enumeration_exhaustive_up_to_length": 3 if tier == "quick" else 4}
