//! Probe library: the foreign peer of the C19 simulation (a test double).
//! Built against /repo/bytecode with the same flags as the interpreter under test.
use bytecode::BytecodePrimitive as P;
use bytecode::FFIReturnValue;

#[cfg(feature = "tag_b")]
const TAG: &str = "B";
#[cfg(feature = "lazy_dep")]
const TAG: &str = "L";
#[cfg(not(any(feature = "tag_b", feature = "lazy_dep")))]
const TAG: &str = "A";

fn describe(args: &[P]) -> String {
    let mut out = format!("lib={TAG} n={}", args.len());
    for (i, a) in args.iter().enumerate() {
        let piece = match a {
            P::Int(x) => format!("int:{x}"),
            P::BigInt(x) => format!("bigint:{x}"),
            P::Float(x) => format!("float:{x:?}"),
            P::Byte(x) => format!("byte:{x}"),
            P::Bool(x) => format!("bool:{x}"),
            P::Str(x) => format!("str:{x:?}"),
            other => format!("other:{other}"),
        };
        out.push_str(&format!(" [{i}]{piece}"));
    }
    out
}

/// The argument slice exactly as received: kind, value and position of every element.
#[no_mangle]
pub fn probe_echo(args: &[P]) -> FFIReturnValue {
    FFIReturnValue::Value(P::Str(describe(args)))
}

/// Same observation through the other return form: prints what it received, returns no value.
#[no_mangle]
pub fn probe_none(args: &[P]) -> FFIReturnValue {
    println!("probe_none {}", describe(args));
    FFIReturnValue::NoValue
}

/// Raises an error that carries the description of its arguments.
#[no_mangle]
pub fn probe_raise(args: &[P]) -> FFIReturnValue {
    FFIReturnValue::FFIError(format!("probe raised <{}>", describe(args)))
}

/// A look-alike of a symbol that does not exist: `probe_under` is NOT exported, `_probe_under` is.
#[no_mangle]
pub fn _probe_under(args: &[P]) -> FFIReturnValue {
    FFIReturnValue::Value(P::Str(format!("look-alike called {}", describe(args))))
}

/// Raises a message of several lines; every line must reach the report.
#[no_mangle]
pub fn probe_raise_multi(args: &[P]) -> FFIReturnValue {
    FFIReturnValue::FFIError(format!("probe raised first line\nsecond line <{}>\nthird line", describe(args)))
}

/// Raises a message that starts with an empty line.
#[no_mangle]
pub fn probe_raise_blank(args: &[P]) -> FFIReturnValue {
    FFIReturnValue::FFIError(format!("\nprobe raised after a blank line <{}>", describe(args)))
}

/// Raises only when the first argument is the int 2 (used inside list callbacks).
#[no_mangle]
pub fn probe_raise_on_two(args: &[P]) -> FFIReturnValue {
    if let Some(P::Int(2)) = args.first() {
        return FFIReturnValue::FFIError(format!("probe raised <{}>", describe(args)));
    }
    match args.first() {
        Some(P::Int(x)) => FFIReturnValue::Value(P::Int(x * 10)),
        _ => FFIReturnValue::Value(P::Int(-1)),
    }
}

#[no_mangle]
pub fn probe_first(args: &[P]) -> FFIReturnValue {
    match args.first() {
        Some(x) => FFIReturnValue::Value(x.clone()),
        None => FFIReturnValue::FFIError("probe_first: no arguments".to_owned()),
    }
}

#[no_mangle]
pub fn probe_last(args: &[P]) -> FFIReturnValue {
    match args.last() {
        Some(x) => FFIReturnValue::Value(x.clone()),
        None => FFIReturnValue::FFIError("probe_last: no arguments".to_owned()),
    }
}

// Symbol names around the 64-character mark: a 63-character name, two longer names that extend it, (and, in the
// simulation, a 64-character name that is NOT exported although its 63-character prefix is).
#[no_mangle]
pub fn probe_long_xxxxxxxxxxxxxxxxxxxxxxxxxxxxxxxxxxxxxxxxxxxxxxxxxxxx(args: &[P]) -> FFIReturnValue {
    FFIReturnValue::Value(P::Str(format!("long63 {}", describe(args))))
}

#[no_mangle]
pub fn probe_long_xxxxxxxxxxxxxxxxxxxxxxxxxxxxxxxxxxxxxxxxxxxxxxxxxxxxyyyyyyy(args: &[P]) -> FFIReturnValue {
    FFIReturnValue::Value(P::Str(format!("long70 {}", describe(args))))
}

#[no_mangle]
pub fn probe_long_xxxxxxxxxxxxxxxxxxxxxxxxxxxxxxxxxxxxxxxxxxxxxxxxxxxxzzzzzzzz(args: &[P]) -> FFIReturnValue {
    FFIReturnValue::Value(P::Str(format!("long71 {}", describe(args))))
}

// Variant "lazy": the library carries one lazily bound reference to an optional helper that is not installed;
// only probe_accel would ever reach it.
#[cfg(feature = "lazy_dep")]
extern "C" {
    fn probe_stub_trampoline(a: i32, b: i32) -> i32;
}

#[cfg(feature = "lazy_dep")]
#[no_mangle]
pub fn probe_accel(args: &[P]) -> FFIReturnValue {
    let (Some(P::Int(x)), Some(P::Int(y))) = (args.first(), args.get(1)) else {
        return FFIReturnValue::FFIError("probe_accel needs two ints".to_string());
    };
    FFIReturnValue::Value(P::Int(unsafe { probe_stub_trampoline(*x, *y) }))
}
