/* Part of the "lazy" probe variant: an ordinary lazily bound PLT call to a helper that lives in an optional library
 * which is not installed in the simulated world.  Only probe_accel reaches it. */
extern int probe_optional_accelerator(int a, int b);

int probe_stub_trampoline(int a, int b) { return probe_optional_accelerator(a, b); }
