#!/bin/sh
# usage: tools/try_mutant.sh <patch.diff> <ID> [tier]   — apply a seeded change to the repository under test (/repo, or the
# snapshot named by SIMWORLD_REPO inside `vp run --with-repo`), run the check, undo it.
set -u
PATCH=$(readlink -f "$1"); ID=$2; TIER=${3:-quick}
R=${SIMWORLD_REPO:-/repo}
cd "$(dirname "$(readlink -f "$0")")/.."
if ! git -C $R diff --quiet; then echo "$R is dirty, refusing"; exit 3; fi
git -C $R apply "$PATCH" || { echo "patch does not apply"; exit 3; }
./check "$ID" --tier "$TIER" 2>&1 | grep -a -v "^$" | tail -12
RC=$?
git -C $R checkout -- . 
git -C $R status --short | grep -v '^??' 
exit 0
