#!/bin/sh
# usage: tools/try_mutant.sh <patch.diff> <ID> [tier]   — apply a seeded change to /repo, run the check, undo it.
set -u
PATCH=$(readlink -f "$1"); ID=$2; TIER=${3:-quick}
cd /verif
if ! git -C /repo diff --quiet; then echo "/repo is dirty, refusing"; exit 3; fi
git -C /repo apply "$PATCH" || { echo "patch does not apply"; exit 3; }
./check "$ID" --tier "$TIER" 2>&1 | grep -a -v "^$" | tail -12
RC=$?
git -C /repo checkout -- . 
git -C /repo status --short | grep -v '^??' 
exit 0
