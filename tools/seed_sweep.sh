#!/bin/sh
# usage: tools/seed_sweep.sh <first> <last> [tier] [ids...] — quiet-on-the-unchanged-tree protocol: run checks under many VERIF_SEED values
FIRST=$1; LAST=$2; TIER=${3:-quick}; shift 3 2>/dev/null
IDS=${*:-C04 C07 C08 C11 C13 C17 C18 C19 C20}
cd "$(dirname "$0")/.."
for s in $(seq $FIRST $LAST); do
  for p in $IDS; do
    OUT=$(VERIF_SEED=$s ./check $p --tier $TIER 2>&1); RC=$?
    echo "seed=$s $p rc=$RC $(echo "$OUT" | grep -v '^KNOWN' | tail -1 | cut -c1-200)"
    if [ $RC -ne 0 ]; then echo "$OUT" | grep -E "violation class|VIOLATION|HARNESS" | head -5 | cut -c1-600; fi
  done
done
