#!/usr/bin/python3
"""Determinism protocol (DESIGN.md §2.5): every sampled case of every claimed property is generated and executed
under several configurations (16 workers / 1 worker, two PYTHONHASHSEED values, repeated); the case JSON and the
digest of everything observable (exit codes, stdout, stderr, complete event logs) must be identical.
usage: tools/determinism.py [cases-per-property] [VERIF_SEED]   -> writes evidence/_determinism.json, exit 2 on divergence"""
import json, os, subprocess, sys, time
VERIF = os.path.dirname(os.path.dirname(os.path.abspath(__file__)))
N = int(sys.argv[1]) if len(sys.argv) > 1 else 60
SEED = int(sys.argv[2]) if len(sys.argv) > 2 else 1
PROPS = os.environ.get("PROPS", "C04,C07,C08,C11,C13,C17,C18,C19,C20").split(",")
WORKER = r'''
import sys, json, hashlib, os, itertools
sys.path.insert(0, os.path.join(os.environ["SIMWORLD_VERIF"], "sim", "driver"))
import core, main
prop, n, seed, workers = sys.argv[1], int(sys.argv[2]), int(sys.argv[3]), int(sys.argv[4])
core.WORKERS = workers
mod = main.load(prop)
gen = mod.gen_cases("quick", seed)
total = 0
cases = []
# stride through the case stream so that every batch kind is sampled
allc = list(itertools.islice(gen, 6000))
if os.environ.get("ONLY_KIND"):
    # a protocol run for one kind of case (e.g. ONLY_KIND=hist: the project histories)
    allc = [c for c in allc if c.get("kind") == os.environ["ONLY_KIND"]]
step = max(1, len(allc) // n)
cases = allc[::step][:n]
import multiprocessing
def one(c):
    r = core.run_case_in_dir(mod, c)
    return [c.get("id"), hashlib.sha256(json.dumps(c, sort_keys=True, default=str).encode()).hexdigest()[:16], r.get("ok"), r.get("class"), r.get("stats", {}).get("digest")]
ctx = multiprocessing.get_context("fork")
with ctx.Pool(workers) as pool:
    out = pool.map(one, cases, chunksize=1)
print(json.dumps(out))
'''
def run(prop, workers, hashseed):
    env = dict(os.environ, PYTHONHASHSEED=str(hashseed), SIMWORLD_VERIF=VERIF)
    r = subprocess.run(["/usr/bin/python3", "-B", "-c", WORKER, prop, str(N), str(SEED), str(workers)], capture_output=True, text=True, env=env)
    if r.returncode != 0:
        print(r.stderr[-2000:]); sys.exit(2)
    return json.loads(r.stdout.strip().split("\n")[-1])
sys.path.insert(0, os.path.join(VERIF, "sim", "driver"))
import core
core.build_all(need_probe=True)
report = {"cases_per_property": N, "verif_seed": SEED, "configurations": ["16 workers PYTHONHASHSEED=0", "16 workers PYTHONHASHSEED=0 (repeat)", "1 worker PYTHONHASHSEED=12345", "4 workers PYTHONHASHSEED=777"], "properties": {}, "divergences": []}
t0 = time.time()
for prop in PROPS:
    runs = [run(prop, 16, 0), run(prop, 16, 0), run(prop, 1, 12345), run(prop, 4, 777)]
    base = runs[0]
    div = 0
    for k, other in enumerate(runs[1:], 1):
        for a, b in zip(base, other):
            if a != b:
                div += 1
                report["divergences"].append({"property": prop, "config": report["configurations"][k], "base": a, "other": b})
    report["properties"][prop] = {"cases": len(base), "executions": len(base) * len(runs), "divergent": div}
    print(prop, report["properties"][prop], flush=True)
report["wall_s"] = round(time.time() - t0, 1)
os.makedirs(os.path.join(VERIF, "evidence"), exist_ok=True)
if os.environ.get("ONLY_KIND"):
    report["only_kind"] = os.environ["ONLY_KIND"]
json.dump(report, open(os.path.join(VERIF, "evidence", "_determinism%s.json" % ("_" + os.environ["ONLY_KIND"] if os.environ.get("ONLY_KIND") else "")), "w"), indent=1)
core.cleanup_scratch()
sys.exit(2 if report["divergences"] else 0)
