#!/bin/sh
# usage: tools/regress_seeded.sh [ID ...] — applies every kept seeded change of the given properties (default: all) to the
# repository under test in turn, runs the deciding quick check (the property's own, unless meta.json names another one under
# "check") and reports which are caught.  The tree is restored after each.
cd "$(dirname "$(readlink -f "$0")")/.."
IDS="${*:-C04 C07 C08 C11 C13 C17 C18 C19 C20}"
miss=0
for id in $IDS; do
  for d in seeded/$id-*; do
    chk=$(/usr/bin/python3 -c "import json,sys; print(json.load(open('$d/meta.json')).get('check','$id'))")
    out=$(sh tools/try_mutant.sh $d/patch.diff $chk 2>&1 | grep -a "simworld: $chk quick" | tail -1)
    case "$out" in
      *VIOLATION*) echo "caught $d ($chk)";;
      *) echo "MISSED $d ($chk) :: $out"; miss=$((miss+1));;
    esac
  done
done
echo "missed=$miss"
