#!/bin/sh
# usage: tools/thorough_all.sh [seed] — run every thorough check once
cd "$(dirname "$0")/.."
S=${1:-1}
for p in C20 C19 C17 C13 C11 C07 C08 C04 C18; do
  OUT=$(VERIF_SEED=$S ./check $p --tier thorough 2>&1); RC=$?
  echo "seed=$S $p rc=$RC $(echo "$OUT" | grep -a -v '^KNOWN' | tail -1 | cut -c1-220)"
  if [ $RC -ne 0 ]; then echo "$OUT" | grep -a -E "violation class|VIOLATION|HARNESS" | head -6 | cut -c1-700; fi
done
