#!/usr/bin/python3
"""Regenerates /verif/MANIFEST.json.  READY lists the properties whose check is built and quiet."""
import json
import os
import subprocess

READY = os.environ.get("READY", "C20").split(",")

NA = {
 "C01": "what a control-flow program prints is a pure function of its text (jump offsets are computed at compile time); no schedule, fault or environment choice can change the verdict — needs shape enumeration, not simulation",
 "C02": "type soundness quantifies over accepted program texts; the static and dynamic operator tables have no environment input",
 "C03": "the faults of its quantifier are edits of the program text, inputs to a pure compile-time function; nothing at run time or in the environment participates",
 "C05": "numeric operators are pure functions of two operand values; no schedule, clock, I/O or fault in the property",
 "C06": "constant folding compares two pure functions of the same literals",
 "C09": "requires every path of the emitted code including paths not taken: exhaustive static exploration, a simulator only sees executed paths",
 "C10": "constness is enforced solely by compile-time checks on the program text",
 "C12": "optional semantics are pure in the operand's nil/present state; no environment-owned state involved",
 "C14": "string/number built-ins are pure functions of receiver and arguments",
 "C15": "evaluation order and register reuse are fixed by the emitted instruction sequence; nothing external can reorder it",
 "C16": "totality over input texts is input fuzzing; compile has no timers, retries or blocking calls whose timing a simulator could own",
}

CLAIMS = {
 "C04": ("exploration", "DESIGN.md §4 C04",
         "Seeded simulation of `run` versus `compile`+`execute` over the example corpus, generated programs of every feature area, multi-module projects and the exhaustive string enumeration, with the file system behind the shim (short/EINTR reads and writes, stale and torn artefacts from killed compiles, per-process hash seeds) and the collector under a seeded schedule; oracle: stdout and exit class equal, loaded instruction streams equal (hook dump); workloads also include the 143 programs of the repository's test-suite and size/shape templates; the entry path is spelled five ways, `run` takes --profile/--no-pb, files may report size 0 (statx) and renames across directories may fail (EXDEV); a two-process batch stops one mscript at its k-th open/read/write, runs a second one in a sibling project with the same file names and a shared TMPDIR, and requires both to be unaffected. Project histories: 3-10 operations on one four-module project — edits of single modules (next revision), run, compile, compile of a dependency only, execute, clean, deletion of one artefact, commands killed at their k-th write/open/read (torn artefacts survive), artefacts that cannot be written — under five policies of the project's file times (steady, standing still, backwards, old-dated sources, future artefacts); oracle: a revision model (`run` prints what the current sources print, `execute` what the revisions its artefacts were compiled from print).",
         "real binary built from /repo with --cfg mscript_verif; shim sees libc calls; under injected I/O errors a process that was hit may fail (then nothing downstream is judged), but if it reports success the ordinary oracle applies",
         "deterministic simulation: libc fault-injection shim + seeded GC schedule, differential oracle run vs compile+execute"),
 "C07": ("exploration", "DESIGN.md §4 C07",
         "An enumerated batch (one captured variable, one use, every syntactic position, owner frame gone, same-named decoy in the caller) and seeded closure histories (creation contexts x <=12 operations) executed by the real binary under seeded collector schedules (0/1%/10%/100% of instructions) and hash seeds, in memory and from files; oracle: line-by-line equality with a reference cell model; every history also varies how the command is invoked (project directory names with #, spaces, non-ASCII, a leading <; --profile/--no-pb/--verbose; RUST_BACKTRACE, TMPDIR, stale PWD). A template batch puts the closures into an imported module (exported bump/peek/mk/shadowed over module state), which is always loaded from its bytecode file. Environments also include project directories that have been lived in: an older revision of the same project really run or compiled there before the judged command, in half of the cases killed at its k-th write/open/read on any file or at a rename, with the file times then set by policy; and entry paths spelled with //, /./, ./, .//.",
         "reference model written from the property statement; generator stays inside the language fragment characterised in DESIGN.md §9",
         "deterministic simulation: seeded GC schedule + hash seeds, history vs reference cell model"),
 "C08": ("exploration", "DESIGN.md §4 C08",
         "Seeded object histories (<=3 classes, <=15 operations: construct, alias, field read/write, method call, `is`) under seeded collector schedules and hash seeds; oracle: reference heap model; invocation varied as for C07. Environments also include project directories that have been lived in: an older revision of the same project really run or compiled there before the judged command, in half of the cases killed at its k-th write/open/read on any file or at a rename, with the file times then set by policy; and entry paths spelled with //, /./, ./, .//.",
         "reference heap model written from the property statement",
         "deterministic simulation: seeded GC schedule + hash seeds, history vs reference heap model"),
 "C11": ("exploration", "DESIGN.md §4 C11",
         "Import DAGs over <=5 modules with both import forms and all placements, run in memory and from files with lazy .mmm loads behind the shim (short/EINTR, dirty directory, hash seeds, GC); oracle: enter/leave trace and shared counters equal the import-graph reference model; negative configurations are rejected at compile time; module names that differ only in case, a module called like the entry in a sub-directory, a directory called like a module, 30-60 modules under a descriptor limit of 20-28; invocation varied as for C07. Environments also include project directories that have been lived in: an older revision of the same project really run or compiled there before the judged command, in half of the cases killed at its k-th write/open/read on any file or at a rename, with the file times then set by policy; and entry paths spelled with //, /./, ./, .//.",
         "path spellings kept canonical (aliasing ./a vs a is outside the stated quantifier)",
         "deterministic simulation: libc shim on lazy module loads + seeded GC, trace vs import-graph model"),
 "C13": ("exploration", "DESIGN.md §4 C13",
         "Seeded list/map operation histories over aliases and clones with boundary indices and callbacks, each under several hash seeds (map iteration order) and collector schedules; oracle: Python sequence / finite-map model, map observations compared order-insensitively; invocation varied as for C07. Environments also include project directories that have been lived in: an older revision of the same project really run or compiled there before the judged command, in half of the cases killed at its k-th write/open/read on any file or at a rename, with the file times then set by policy; and entry paths spelled with //, /./, ./, .//.",
         "model adopts observed behaviour where the statement is silent (join drains its argument)",
         "deterministic simulation: hash-seed and GC-schedule sweep, history vs sequence/finite-map model"),
 "C17": ("fault_enumeration", "DESIGN.md §4 C17",
         "Failure catalogue x frame kinds x depth 0-6 call histories; the simulator places the failure point, owns both output streams (short/EINTR writes, one pipe or two) and judges stdout-prefix durability, exit class, report-after-output order on the global event sequence, and the exact call trace against a call-stack model; project directory names, options (--profile, --no-pb, -X, --verbose), RUST_BACKTRACE, leading blank lines, loop-exit hazards and unwritable artefacts (may fail, may not panic) are part of the environment. Float divisors that are negative zero (out of arithmetic and out of ceil).",
         "trace label format taken from the implementation (DESIGN.md §9)",
         "deterministic simulation: fault placement along generated call histories, stream interleaving under the shim, call-stack model"),
 "C18": ("exploration", "DESIGN.md §4 C18",
         "Three-step pipeline (compile raw-text, transpile, execute) versus `run` over corpus, generators and the exhaustive argument-string enumeration, all three processes behind the shim (short/EINTR, dirty output file, hash seeds); oracle: stdout and exit class equal, instruction streams equal; plus a hand-written file naming every instruction of the table. Text-route histories: compile to text, rename, transpile, execute, `execute --transpile`, edits of the source between, binary compiles, clean, and commands killed at their k-th write/read/open on one long-lived single-module project under five file-time policies; oracle: a revision model (the executed binary prints what the revision its text form was written from prints).",
         "as C04",
         "deterministic simulation: libc fault-injection shim over the transpile pipeline, differential oracle"),
 "C19": ("fault_enumeration", "DESIGN.md §4 C19",
         "Hand-written bytecode calling a probe library through call_lib: every argument vector of length <=3 over six kinds plus sampled longer ones, three return forms, and the loader faults (library missing, dlopen NULL, symbol missing, dlsym NULL, raised error) injected by the shim; oracle: echoed vector equals the pushed one in order, result pushed, fail-stop with message and no later instruction; library names (search path, backslash, versioned, absent with sibling), a library with an unresolved lazy reference, symbol names of 63-71 characters, multi-line messages, calls 0-40 frames deep, bytecode started from another directory, RUST_BACKTRACE. Libraries whose paths contain #, blanks, colons, @ and ?; a dead stderr (every write to fd 2 fails): the message cannot be demanded then, failure status and fail-stop can.",
         "probe library is a test double built against /repo/bytecode",
         "deterministic simulation: dynamic-loader fault injection (dlopen/dlsym) with a probe library as the foreign peer"),
 "C20": ("fault_enumeration", "DESIGN.md §4 C20",
         "Directory trees from the property's name set x entry kinds, every readdir permutation of small directories, unlink/readdir/stdout faults and kill points injected by the shim; oracle: before/after snapshot against a set model — safety under every plan, completeness and reported count under fault-free and benign plans; DIR spelled eight ways (also through a symlink), a PWD that names another directory. Project histories: `clean .` / `clean lib` (also killed before its k-th unlink) inside histories of real compiles, runs, edits and killed compiles on a four-module project with a sub-directory; same snapshot oracle. Hard links (second names of siblings and of a file outside DIR, every listing order); DIR named ~ / ~d with HOME pointing at a decoy; a clean that reports success after a failed system call must have cleaned and counted correctly.",
         "root cannot create a read-only directory, EACCES is injected instead",
         "deterministic simulation: readdir-order and unlink fault injection via libc shim, snapshot vs set model"),
}


def main():
    commits = subprocess.run("git -C /repo log --format=%H --grep='verification hooks' -i", shell=True,
                             capture_output=True, text=True).stdout.split()
    checks = []
    for pid in sorted(CLAIMS):
        if pid not in READY:
            continue
        cat, ref, text, note, tech = CLAIMS[pid]
        checks.append({
            "property_id": pid,
            "quick_cmd": "./check %s --tier quick" % pid,
            "thorough_cmd": "./check %s --tier thorough" % pid,
            "evidence_file": "/verif/evidence/%s.json" % pid,
            "replay_cmd_template": "./check replay {path}",
            "engine": "simworld",
            "level_claimed": {"category": cat, "text": text, "design_ref": ref},
            "level_note": note,
            "technique": tech,
        })
    na = [{"property_id": k, "reason": v} for k, v in sorted(NA.items())]
    for pid in sorted(CLAIMS):
        if pid not in READY:
            na.append({"property_id": pid, "reason": "applicable (see DESIGN.md §4) but its check is not registered yet: still being built/triaged in this round"})
    man = {
        "version": 1,
        "setup_cmd": "./check build",
        "hooks": {
            "guard": "mscript_verif",
            "enable": "RUSTFLAGS=\"--cfg mscript_verif\" cargo build --offline --manifest-path /repo/Cargo.toml --target-dir /verif/.build/mscript",
            "baseline_off_cmd": "cd /repo && CARGO_NET_OFFLINE=true cargo nextest run --workspace --no-fail-fast --offline",
            "source_commits": commits,
            "add_only": True,
        },
        "engines": [{"name": "simworld", "path": "/verif/sim", "serves_properties": [c["property_id"] for c in checks],
                     "kind_free_text": "deterministic simulation with fault injection: LD_PRELOAD libc shim (plan executor: file, loader, clock, thread-id and two-process-schedule seams), cfg-guarded GC-schedule hook, seeded Python driver with reference models, replay files"}],
        "checks": checks,
        "not_applicable": na,
        "notes": "Exit codes: 0 held, 1 VIOLATION (replay file named), 2 harness error. VERIF_SEED (default 1) decides every generated world, plan and schedule. known_findings.json lists recorded defects; fix: commits in /repo are listed there as fixed entries.",
    }
    with open("/verif/MANIFEST.json", "w") as f:
        json.dump(man, f, indent=1)
        f.write("\n")
    print("MANIFEST: %d checks, %d not applicable" % (len(checks), len(na)))


main()
