#!/bin/sh
# usage: tools/confirm_mutant.sh <dir-with-patch.diff-and-demo.sh> — confirm, in a scratch worktree outside /repo and /verif,
# that the change compiles, passes the 193 tests, and that its demo passes without and fails with the change.
set -u
SRC=$(readlink -f "$1")
M=${MUT:-/tmp/mut12}; WT=$M/confirm
export CARGO_NET_OFFLINE=true RUST_BACKTRACE=0
if [ ! -d $WT ]; then git -C /repo worktree add -q --detach $WT HEAD || exit 3; fi
cd $WT && git checkout -q --detach $(git -C /repo rev-parse HEAD) && git checkout -- . && git clean -fdq -e target
echo "== base build"; cargo build --offline 2>&1 | tail -1
cp target/debug/mscript $M/confirm-base-mscript
echo "== demo on base"; (cd "$SRC" && bash ./demo.sh $M/confirm-base-mscript >$M/confirm-demo-base.log 2>&1; echo "demo_base_rc=$?"); tail -2 $M/confirm-demo-base.log
git apply "$SRC/patch.diff" || { echo "APPLY-FAILED"; exit 3; }
echo "== mutant build"; cargo build --offline 2>&1 | tail -1
echo "== tests"; cargo nextest run --workspace --no-fail-fast --offline 2>&1 | grep -E "Summary|FAIL" | head -5
cp target/debug/mscript $M/confirm-mut-mscript
echo "== demo on mutant"; (cd "$SRC" && bash ./demo.sh $M/confirm-mut-mscript >$M/confirm-demo-mut.log 2>&1; echo "demo_mut_rc=$?"); tail -2 $M/confirm-demo-mut.log
git checkout -- . 
