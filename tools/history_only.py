#!/usr/bin/python3
"""usage: tools/history_only.py C04|C20|C18 [cases] [VERIF_SEED] — runs only the project-history batch of a check against the binary built
from the repository under test (no evidence written): quick sensitivity runs after `git -C /repo apply <patch>`, and seed sweeps of
the history generators alone (a thousand histories take a few seconds)."""
import collections, importlib, os, sys, time
sys.path.insert(0, os.path.join(os.path.dirname(os.path.dirname(os.path.abspath(__file__))), "sim", "driver"))
import core, history
prop = sys.argv[1] if len(sys.argv) > 1 else "C04"
n = int(sys.argv[2]) if len(sys.argv) > 2 else 600
seed = int(sys.argv[3]) if len(sys.argv) > 3 else 1
mod = importlib.import_module({"C04": "c04", "C20": "c20", "C18": "c18"}[prop])
core.build_all(quiet=True)
cases = list(history.gen_text_cases(prop, "quick", seed, n)) if prop == "C18" else list(history.gen_cases(prop, prop.lower(), "quick", seed, n))
t = time.time()
tally, failures, herrs = core.run_batch(mod.__name__, iter(cases), deadline=time.time() + 900)
print("histories: %d cases, %d processes, %d failing, %d harness errors, %.1fs" % (tally.evaluations, tally.procs, len(failures), len(herrs), time.time() - t))
print("probes:", dict(tally.probes))
print("classes:", dict(collections.Counter(r.get("class") for c, r in failures)))
for c, r in failures[:3]:
    print(r["class"], "::", r["msg"][:500])
for c, m in herrs[:3]:
    print("HARNESS-ERROR", m)
core.cleanup_scratch()
sys.exit(2 if herrs else (1 if failures else 0))
