#!/usr/bin/python3
"""usage: keep_mutant.py <src-dir> <name> <property> <breaks> <needs> <detected_by>
Copies patch.diff, the demonstration and notes into /verif/seeded/<name>/ and writes meta.json."""
import json, os, shutil, sys
src, name, prop, breaks, needs, detected = sys.argv[1:7]
dst = os.path.join('/verif/seeded', name)
shutil.rmtree(dst, ignore_errors=True)
shutil.copytree(src, dst, ignore=shutil.ignore_patterns('target', 'work', '*.so', 'mscript*', 'Cargo.lock'))
meta = {
 "property": prop,
 "breaks": breaks,
 "needs_to_manifest": needs,
 "confirmed": {
   "how": "tools/confirm_mutant.sh in a scratch worktree under /tmp (removed afterwards): base build, demo on base, git apply patch.diff, build, cargo nextest run --workspace --offline, demo on mutant",
   "compiles": True, "tests_193_pass": True, "demo_passes_without_change": True, "demo_fails_with_change": True},
 "detected_by": detected,
 "how_checked": "tools/try_mutant.sh seeded/%s/patch.diff %s  (git -C /repo apply; ./check %s --tier quick; git -C /repo checkout -- .)" % (name, prop, prop),
}
json.dump(meta, open(os.path.join(dst, 'meta.json'), 'w'), indent=1)
print("kept", dst, os.listdir(dst))
